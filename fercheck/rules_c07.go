package main

import (
	"fmt"
	"go/ast"
	"go/token"
	"go/types"
	"strings"

	"golang.org/x/tools/go/cfg"
)

func init() {
	register("C07", &propSpec{
		Explanation: "Structural necessary conditions of the borrow rules being enforced (internal/hir/analysis/borrow.go): (R1) conflict matrix: a read looks for mutable loans only, a write for mutable and shared loans, a mutable borrow for any loan, a shared borrow for mutable loans, and every hit is reported (and refuses the borrow); (R2) the checker's traversal and the last-use collector both reach every expression/statement child of every HIR kind hir/gen builds (a skipped child hides an access, a skipped use releases a loan early); (R3) loans are paired: each granted borrow is recorded as a temporary or as a binding of the declared reference, statement-level expression checks are bracketed by a temporary release, scopes are popped on every exit, every reference-typed declaration binds its loans; (R4) the overlap relation answers false only after a segment inequality test and true for prefixes; (R5) every function-like body gets its own checker; (R6) a returned reference is checked on every return with a value, looking through calls and treating by-value parameters as locals; (R7) write-through lowering: the stack slot that gives a by-value parameter an address is allocated and initialised in the entry block (so the initialisation happens once and dominates every use), and an assignment through a reference stores to the loaded pointer. Does not decide the rest of reference code generation, references stored in struct fields / containers, or loans across loop iterations.",
		Quick:       []ruleFn{c07R1, c07R2, c07R3, c07R4, c07R5, c07R6, c07R7},
	})
}

const borrowRecv = "(*borrowChecker)."

func findBorrowFilter(fn *Fn, call *ast.CallExpr) string {
	// third argument: nil, or &v with v := true/false
	info := fn.Info()
	if len(call.Args) != 3 {
		return "?"
	}
	a := ast.Unparen(call.Args[2])
	if id, ok := a.(*ast.Ident); ok && id.Name == "nil" {
		return "any"
	}
	if u, ok := a.(*ast.UnaryExpr); ok && u.Op == token.AND {
		o := objOf(info, u.X)
		vals := map[string]bool{}
		for _, d := range localDefs(fn)[o] {
			if v := constOf(info, d); v != nil {
				vals[fmt.Sprint(boolVal(v))] = true
			} else {
				vals["?"] = true
			}
		}
		if len(vals) == 1 {
			for k := range vals {
				if k == "true" {
					return "mutable"
				}
				if k == "false" {
					return "shared"
				}
			}
		}
	}
	return "?"
}

func c07R1(c *Ctx, r *Report) {
	const rule = "C07.R1"
	r.Describe(rule, "conflict matrix of checkAccess / addBorrow (filters handed to findBorrow) and error report on every hit")
	ca := c.LookupFn(pkgHIRAn, borrowRecv+"checkAccess")
	ab := c.LookupFn(pkgHIRAn, borrowRecv+"addBorrow")
	fb := c.LookupFn(pkgHIRAn, "findBorrow")
	rep := c.LookupFn(pkgHIRAn, borrowRecv+"reportBorrowError")
	po := c.LookupFn(pkgHIRAn, "pathsOverlap")
	if !r.Anchor(rule, ca != nil && ab != nil && fb != nil && rep != nil && po != nil, "borrow.go checkAccess / addBorrow / findBorrow / reportBorrowError / pathsOverlap") {
		return
	}
	filters := func(fn *Fn, root ast.Node) []string {
		var out []string
		inspectShallow(root, func(x ast.Node) bool {
			if cl, ok := x.(*ast.CallExpr); ok && isCallTo(fn.Info(), cl, fb.Obj) {
				out = append(out, findBorrowFilter(fn, cl))
			}
			return true
		})
		return out
	}
	want := func(fn *Fn, label string, root ast.Node, expect []string, why string) {
		got := filters(fn, root)
		r.Check(root != nil && strings.Join(got, ",") == strings.Join(expect, ","), rule, fn.Name(), label+" conflicts with "+strings.Join(expect, "+")+" loans", c.pos(fn.Decl.Pos()),
			fmt.Sprintf("%s: findBorrow is asked for %v, expected %v — %s", label, got, expect, why))
	}
	var readC, writeC ast.Node
	if cc := clauseOf(ca, "accessRead", nil); cc != nil {
		readC = &ast.BlockStmt{List: cc.Body}
	}
	if cc := clauseOf(ca, "accessWrite", nil); cc != nil {
		writeC = &ast.BlockStmt{List: cc.Body}
	}
	if r.Anchor(rule, readC != nil && writeC != nil, "checkAccess: case accessRead / accessWrite") {
		want(ca, "read", readC, []string{"mutable"}, "a read while a mutable loan is live must be rejected (and only then)")
		want(ca, "write", writeC, []string{"mutable", "shared"}, "a write must be rejected while any loan of an overlapping place is live")
	}
	// addBorrow: if mutable { any } else { mutable }
	var mutIf *ast.IfStmt
	mp := ab.ParamNamed("mutable")
	ast.Inspect(ab.Decl.Body, func(x ast.Node) bool {
		if ifs, ok := x.(*ast.IfStmt); ok && mutIf == nil && mp != nil && objOf(ab.Info(), ifs.Cond) == mp {
			mutIf = ifs
		}
		return true
	})
	if r.Anchor(rule, mutIf != nil && mutIf.Else != nil, "addBorrow: if mutable {…} else {…}") {
		want(ab, "mutable borrow", mutIf.Body, []string{"any"}, "a mutable borrow must be refused while any loan of an overlapping place is live")
		want(ab, "shared borrow", mutIf.Else, []string{"mutable"}, "a shared borrow must be refused while a mutable loan is live")
	}
	// every hit reports; in addBorrow it also returns false
	for _, fn := range []*Fn{ca, ab} {
		info := fn.Info()
		n, bad := 0, 0
		ast.Inspect(fn.Decl.Body, func(x ast.Node) bool {
			ifs, ok := x.(*ast.IfStmt)
			if !ok || ifs.Init == nil || nodeCalls(info, ifs.Init, fb.Obj) == nil {
				return true
			}
			n++
			if nodeCalls(info, ifs.Body, rep.Obj) == nil {
				bad++
			}
			if fn == ab {
				retFalse := false
				for _, st := range ifs.Body.List {
					if ret, ok := st.(*ast.ReturnStmt); ok && len(ret.Results) == 1 {
						if v := constOf(info, ret.Results[0]); v != nil && !boolVal(v) {
							retFalse = true
						}
					}
				}
				if !retFalse {
					bad++
				}
			}
			return true
		})
		r.Check(n > 0 && bad == 0, rule, fn.Name(), "every conflict found is reported"+map[bool]string{true: " and refuses the borrow", false: ""}[fn == ab], c.pos(fn.Decl.Pos()),
			fmt.Sprintf("%d of %d conflict branches do not report an error (or still grant the borrow)", bad, n))
	}
	// findBorrow filters by overlap and by the requested mutability; a granted borrow is appended to the loans of its base
	finfo := fb.Info()
	r.Check(nodeCalls(finfo, fb.Decl.Body, po.Obj) != nil, rule, fb.Name(), "findBorrow tests pathsOverlap", c.pos(fb.Decl.Pos()), "loans are no longer matched by place overlap")
	appended := false
	ast.Inspect(ab.Decl.Body, func(x ast.Node) bool {
		if as, ok := x.(*ast.AssignStmt); ok && len(as.Lhs) == 1 && strings.HasSuffix(exprStr(as.Lhs[0]), ".borrows[place.base]") {
			if cl, ok := as.Rhs[0].(*ast.CallExpr); ok && exprStr(cl.Fun) == "append" {
				appended = true
			}
		}
		return true
	})
	r.Check(appended, rule, ab.Name(), "granted loan appended to borrows[base]", c.pos(ab.Decl.Pos()), "a granted borrow is not recorded, so later conflicting accesses are not seen")
}

func c07R2(c *Ctx, r *Report) {
	const rule = "C07.R2"
	r.Describe(rule, "traversal completeness over the HIR universe: borrowChecker.checkNode/checkBlock/checkExpr and collectRefUsesNode/collectRefUsesExpr")
	u := buildHIRUniverse(c, "internal/hir/gen")
	type fam struct {
		label  string
		fns    []string
		params []string
		msg    string
		exempt map[string]string
	}
	fams := []fam{
		{"borrow checker walk", []string{borrowRecv + "checkNode", borrowRecv + "checkBlock", borrowRecv + "checkExpr"}, []string{"node", "block", "expr"},
			"accesses and borrows inside hir.%s are not seen by the borrow checker: a conflicting use there is accepted", map[string]string{
				"FuncDecl.Body":   "module item: entered through checkFuncDecl (R5); nested function declarations are rejected (D0005)",
				"MethodDecl.Body": "module item: entered through checkMethodDecl (R5)",
				"ConstDecl.Decls": "re-wrapped as VarDecl{Decls: n.Decls} and handed to checkVarDecl (checked below)",
			}},
		{"last-use collector", []string{"collectRefUsesNode", "collectRefUsesExpr"}, []string{"node", "expr"},
			"uses of a reference inside hir.%s are not counted as uses: its loan is released before that use and a conflicting access in between is accepted", map[string]string{
				"FuncLit.Body":    "captured references are recorded through FuncLit.Captures and the body is also walked",
				"FuncDecl.Body":   "module item, never a statement of a block (nested declarations are rejected, D0005)",
				"MethodDecl.Body": "module item, never a statement of a block",
			}},
	}
	for _, f := range fams {
		var ws []*Fn
		ok := true
		for _, n := range f.fns {
			w := c.LookupFn(pkgHIRAn, n)
			if w == nil {
				ok = false
			}
			ws = append(ws, w)
		}
		if !r.Anchor(rule, ok, "analysis: "+strings.Join(f.fns, ", ")) {
			continue
		}
		last, any := hirWalkerVisited(c, pkgHIRAn, ws, f.params)
		msg := f.msg
		n := checkHIRTraversal(c, r, rule, f.label, u, last, any, f.exempt, func(pair string) string { return fmt.Sprintf(msg, pair) })
		r.Floor(rule, n, 40, "HIR (kind, child) pairs for the "+f.label)
	}
	// ConstDecl items go through checkVarDecl
	if cn := c.LookupFn(pkgHIRAn, borrowRecv+"checkNode"); cn != nil {
		vd := c.LookupFn(pkgHIRAn, borrowRecv+"checkVarDecl")
		ok := false
		ast.Inspect(cn.Decl.Body, func(x ast.Node) bool {
			cc, isCC := x.(*ast.CaseClause)
			if !isCC {
				return true
			}
			for _, t := range caseTypes(cn.Info(), cc) {
				if nt := namedOf(t); nt != nil && nt.Obj().Name() == "ConstDecl" {
					for _, st := range cc.Body {
						if cl := nodeCalls(cn.Info(), st, vd.Obj); vd != nil && cl != nil {
							ast.Inspect(cl.Args[0], func(y ast.Node) bool {
								if kv, isKV := y.(*ast.KeyValueExpr); isKV && exprStr(kv.Key) == "Decls" && strings.HasSuffix(exprStr(kv.Value), ".Decls") {
									ok = true
								}
								return true
							})
						}
					}
				}
			}
			return true
		})
		r.Check(ok, rule, cn.Name(), "case *hir.ConstDecl -> checkVarDecl(VarDecl{Decls: n.Decls})", c.pos(cn.Decl.Pos()), "const declarations are no longer borrow-checked like let declarations")
	}
}

func c07R3(c *Ctx, r *Report) {
	const rule = "C07.R3"
	r.Describe(rule, "loans are paired: granted borrows are recorded; statement-level checks release temporaries; scopes are popped on every exit; reference declarations bind their loans")
	ab := c.LookupFn(pkgHIRAn, borrowRecv+"addBorrow")
	addBinding := c.LookupFn(pkgHIRAn, borrowRecv+"addBinding")
	chk := c.LookupFn(pkgHIRAn, borrowRecv+"checkExpr")
	wts := c.LookupFn(pkgHIRAn, borrowRecv+"withTempScope")
	rel := c.LookupFn(pkgHIRAn, borrowRecv+"releaseTemps")
	push := c.LookupFn(pkgHIRAn, borrowRecv+"pushScope")
	pop := c.LookupFn(pkgHIRAn, borrowRecv+"popScope")
	relBind := c.LookupFn(pkgHIRAn, borrowRecv+"releaseBinding")
	relBorrow := c.LookupFn(pkgHIRAn, borrowRecv+"releaseBorrow")
	if !r.Anchor(rule, ab != nil && chk != nil && wts != nil && rel != nil && push != nil && pop != nil && relBind != nil && relBorrow != nil, "borrow.go addBorrow/checkExpr/withTempScope/releaseTemps/pushScope/popScope/releaseBinding/releaseBorrow") {
		return
	}
	// (a) every addBorrow call is the condition of an if that records the loan
	nAB := 0
	for _, fn := range c.AllFns(pkgHIRAn) {
		info := fn.Info()
		walkWithStack(fn.Decl.Body, func(n ast.Node, stack []ast.Node) bool {
			call, ok := n.(*ast.CallExpr)
			if !ok || !isCallTo(info, call, ab.Obj) {
				return true
			}
			nAB++
			recorded := false
			for i := len(stack) - 1; i >= 0; i-- {
				ifs, ok := stack[i].(*ast.IfStmt)
				if !ok {
					continue
				}
				inCond := false
				ast.Inspect(ifs.Cond, func(x ast.Node) bool {
					if x == ast.Node(call) {
						inCond = true
					}
					return true
				})
				if !inCond {
					continue
				}
				ast.Inspect(ifs.Body, func(x ast.Node) bool {
					switch s := x.(type) {
					case *ast.AssignStmt:
						for _, l := range s.Lhs {
							ls := exprStr(l)
							if strings.HasSuffix(ls, ".temp") || strings.Contains(ls, ".bindings[") {
								recorded = true
							}
						}
					case *ast.CallExpr:
						if addBinding != nil && isCallTo(info, s, addBinding.Obj) {
							recorded = true
						}
					}
					return true
				})
				break
			}
			r.Check(recorded, rule, fn.Name(), "granted borrow "+exprStr(call)+" recorded as temporary or binding", c.pos(call.Pos()),
				"the loan granted here is neither pushed on the temporaries nor bound to a reference variable: it is never released (later accesses are rejected for ever) or its holder is unknown")
			return true
		})
	}
	r.Floor(rule, nAB, 3, "addBorrow call sites")
	// (b) statement-level checkExpr calls are bracketed
	stmtFns := []string{"checkNode", "checkVarDecl", "checkAssignStmt", "checkReturnStmt", "checkIfStmt", "checkForStmt", "checkWhileStmt", "checkMatchStmt", "checkCatchClause"}
	nCE := 0
	for _, name := range stmtFns {
		fn := c.LookupFn(pkgHIRAn, borrowRecv+name)
		if !r.Anchor(rule, fn != nil, "borrow.go "+name) {
			continue
		}
		info := fn.Info()
		g := c.CFG(fn)
		// fact "temporaries will be released": inside withTempScope literal, or after `start := len(b.temp)` with a releaseTemps/bindRefFromExpr on every path to exit
		walkWithStack(fn.Decl.Body, func(n ast.Node, stack []ast.Node) bool {
			call, ok := n.(*ast.CallExpr)
			if !ok || !isCallTo(info, call, chk.Obj) {
				return true
			}
			nCE++
			inLit := false
			for i := len(stack) - 1; i >= 0; i-- {
				if fl, ok := stack[i].(*ast.FuncLit); ok {
					// the literal must be the argument of withTempScope
					for j := i - 1; j >= 0; j-- {
						if oc, ok := stack[j].(*ast.CallExpr); ok && isCallTo(info, oc, wts.Obj) && len(oc.Args) == 1 && oc.Args[0] == ast.Expr(fl) {
							inLit = true
						}
					}
					break
				}
			}
			ok2 := inLit
			if !ok2 {
				// argument that cannot create a temporary: a bare identifier
				if len(call.Args) == 1 {
					if nt := namedOf(info.TypeOf(call.Args[0])); nt != nil && nt.Obj().Name() == "Ident" {
						ok2 = true
					}
				}
			}
			if !ok2 {
				// must be followed on all paths by releaseTemps / bindRefFromExpr
				releasers := []*types.Func{rel.Obj}
				if bre := c.LookupFn(pkgHIRAn, borrowRecv+"bindRefFromExpr"); bre != nil {
					releasers = append(releasers, bre.Obj)
				}
				hits := mustFlow(g, FlowSpec{
					InitTrue: true,
					Kill: func(nd ast.Node) bool {
						return nodeCallsPred(nd, func(x *ast.CallExpr) bool { return x == call }) != nil
					},
					Gate:     func(nd ast.Node) bool { return nodeCalls(info, nd, releasers...) != nil },
					AtReturn: true,
				})
				ok2 = len(hits) == 0
			}
			r.Check(ok2, rule, fn.Name(), "statement-level "+exprStr(call)+" releases its temporaries", c.pos(call.Pos()),
				"borrows taken while checking this expression are not released at the end of the statement (or handed to a binding): the place stays borrowed for the rest of the function")
			return true
		})
	}
	r.Floor(rule, nCE, 8, "statement-level checkExpr calls")
	// (c) pushScope / popScope paired on all exits
	for _, name := range []string{"checkBlock", "checkForStmt"} {
		fn := c.LookupFn(pkgHIRAn, borrowRecv+name)
		if !r.Anchor(rule, fn != nil, "borrow.go "+name) {
			continue
		}
		info := fn.Info()
		hits := mustFlow(c.CFG(fn), FlowSpec{
			InitTrue: true,
			Kill:     func(nd ast.Node) bool { return nodeCalls(info, nd, push.Obj) != nil },
			Gate:     func(nd ast.Node) bool { return nodeCalls(info, nd, pop.Obj) != nil },
			AtReturn: true,
		})
		r.Check(len(hits) == 0 && nodeCalls(info, fn.Decl.Body, push.Obj) != nil, rule, fn.Name(), "pushScope is followed by popScope on every exit", c.pos(fn.Decl.Pos()),
			"a scope pushed here can be left open: the references declared in it keep their loans after the block ends")
	}
	// popScope / releaseExpiredRefs release through releaseBinding; releaseBinding releases through releaseBorrow
	for _, p := range [][2]string{{"popScope", "releaseBinding"}, {"releaseExpiredRefs", "releaseBinding"}, {"releaseBinding", "releaseBorrow"}, {"releaseTemps", "releaseBorrow"}} {
		fn := c.LookupFn(pkgHIRAn, borrowRecv+p[0])
		callee := c.LookupFn(pkgHIRAn, borrowRecv+p[1])
		if r.Anchor(rule, fn != nil && callee != nil, "borrow.go "+p[0]+" / "+p[1]) {
			r.Check(nodeCalls(fn.Info(), fn.Decl.Body, callee.Obj) != nil, rule, fn.Name(), "releases through "+p[1], c.pos(fn.Decl.Pos()), "loans are no longer released here: the place stays borrowed after the reference is gone")
		}
	}
	// (d) reference-typed declarations bind their loans on every path
	vd := c.LookupFn(pkgHIRAn, borrowRecv+"checkVarDecl")
	if r.Anchor(rule, vd != nil, "borrow.go checkVarDecl") {
		info := vd.Info()
		var refIf *ast.IfStmt
		ast.Inspect(vd.Decl.Body, func(x ast.Node) bool {
			if ifs, ok := x.(*ast.IfStmt); ok && refIf == nil && exprStr(ifs.Cond) == "isRefDecl" {
				refIf = ifs
			}
			return true
		})
		if r.Anchor(rule, refIf != nil, "checkVarDecl: if isRefDecl {…}") {
			var binders []*types.Func
			for _, n := range []string{"checkBorrowInit", "bindRefFromIdent", "bindRefFromExpr"} {
				if f := c.LookupFn(pkgHIRAn, borrowRecv+n); f != nil {
					binders = append(binders, f.Obj)
				}
			}
			g := c.CFGOfBody(refIf.Body)
			hits := mustFlow(g, FlowSpec{
				Gate:     func(nd ast.Node) bool { return len(binders) > 0 && nodeCalls(info, nd, binders...) != nil },
				AtReturn: true,
			})
			r.Check(len(hits) == 0, rule, vd.Name(), "a reference-typed declaration binds the loans of its initialiser on every path", c.pos(refIf.Pos()),
				"for some initialiser shapes (e.g. a call returning a reference) no loan is tied to the declared reference: `let r := id(&'x)` leaves x free to be borrowed mutably again or written while r is still used")
		}
	}
}

func c07R4(c *Ctx, r *Report) {
	const rule = "C07.R4"
	r.Describe(rule, "pathsOverlap: `false` only after a segment inequality; an index segment and a shared prefix overlap")
	po := c.LookupFn(pkgHIRAn, "pathsOverlap")
	if !r.Anchor(rule, po != nil, "borrow.go pathsOverlap") {
		return
	}
	info := po.Info()
	isFalseRet := func(n ast.Node) bool {
		ret, ok := n.(*ast.ReturnStmt)
		if !ok || len(ret.Results) != 1 {
			return false
		}
		v := constOf(info, ret.Results[0])
		return v != nil && !boolVal(v)
	}
	nFalse := 0
	hits := mustFlow(c.CFG(po), FlowSpec{
		EdgeGate: func(b *cfg.Block, succ int) bool {
			cond := condOf(b)
			if cond == nil || succ != 0 {
				return false
			}
			for _, d := range disjuncts(cond) {
				be, ok := isBinOp(d, token.NEQ)
				if !ok {
					return false
				}
				l, rr := exprStr(be.X), exprStr(be.Y)
				if !((strings.HasSuffix(l, ".kind") && strings.HasSuffix(rr, ".kind")) || (strings.HasSuffix(l, ".name") && strings.HasSuffix(rr, ".name"))) {
					return false
				}
			}
			return true
		},
		Target: func(n ast.Node) bool {
			if isFalseRet(n) {
				nFalse++
				return true
			}
			return false
		},
	})
	r.Check(len(hits) == 0 && nFalse > 0, rule, po.Name(), "`return false` only when a field segment differs", where(c, po, hits),
		"two places are declared disjoint without a differing field segment: a borrow of one no longer protects the other (e.g. a prefix such as `p` vs `p.x`)")
	// the fall-through exit (prefix relation) and the index case answer true; non-constant returns are not accepted
	allConst := true
	lastTrue := false
	ast.Inspect(po.Decl.Body, func(x ast.Node) bool {
		if ret, ok := x.(*ast.ReturnStmt); ok && len(ret.Results) == 1 {
			if constOf(info, ret.Results[0]) == nil {
				allConst = false
			}
		}
		return true
	})
	if l := po.Decl.Body.List; len(l) > 0 {
		if ret, ok := l[len(l)-1].(*ast.ReturnStmt); ok && len(ret.Results) == 1 {
			if v := constOf(info, ret.Results[0]); v != nil && boolVal(v) {
				lastTrue = true
			}
		}
	}
	r.Check(allConst && lastTrue, rule, po.Name(), "prefixes overlap (final answer true)", c.pos(po.Decl.Pos()), "when one path is a prefix of the other the places overlap (`p` contains `p.x`); the final answer is no longer the constant true")
	idxTrue := false
	ast.Inspect(po.Decl.Body, func(x ast.Node) bool {
		if ifs, ok := x.(*ast.IfStmt); ok && strings.Contains(exprStr(ifs.Cond), "segmentIndex") {
			for _, st := range ifs.Body.List {
				if ret, ok := st.(*ast.ReturnStmt); ok && len(ret.Results) == 1 {
					if v := constOf(info, ret.Results[0]); v != nil && boolVal(v) {
						idxTrue = true
					}
				}
			}
		}
		return true
	})
	r.Check(idxTrue, rule, po.Name(), "an index segment overlaps every index", c.pos(po.Decl.Pos()), "two elements of the same array are treated as disjoint although the indices are not compared")
}

func where(c *Ctx, fn *Fn, hits []FlowHit) string {
	if len(hits) > 0 && hits[0].Pos.IsValid() {
		return c.pos(hits[0].Pos)
	}
	return c.pos(fn.Decl.Pos())
}

func c07R5(c *Ctx, r *Report) {
	const rule = "C07.R5"
	r.Describe(rule, "every function-like body is checked by its own borrow checker: FuncDecl, MethodDecl (module items) and FuncLit (expression)")
	top := c.LookupFn(pkgHIRAn, "checkBorrowRules")
	nb := c.LookupFn(pkgHIRAn, "newBorrowChecker")
	chk := c.LookupFn(pkgHIRAn, borrowRecv+"checkExpr")
	if !r.Anchor(rule, top != nil && nb != nil && chk != nil, "borrow.go checkBorrowRules / newBorrowChecker / checkExpr") {
		return
	}
	for _, site := range []struct {
		fn   *Fn
		kind string
	}{{top, "FuncDecl"}, {top, "MethodDecl"}, {chk, "FuncLit"}} {
		found := false
		ast.Inspect(site.fn.Decl.Body, func(x ast.Node) bool {
			cc, ok := x.(*ast.CaseClause)
			if !ok {
				return true
			}
			for _, t := range caseTypes(site.fn.Info(), cc) {
				if nt := namedOf(t); nt != nil && nt.Obj().Name() == site.kind {
					for _, st := range cc.Body {
						if nodeCalls(site.fn.Info(), st, nb.Obj) != nil {
							found = true
						}
						// calls inside nested statements
						ast.Inspect(st, func(y ast.Node) bool {
							if cl, ok := y.(*ast.CallExpr); ok && isCallTo(site.fn.Info(), cl, nb.Obj) {
								found = true
							}
							return true
						})
					}
				}
			}
			return true
		})
		r.Check(found, rule, site.fn.Name(), "case *hir."+site.kind+" -> newBorrowChecker", c.pos(site.fn.Decl.Pos()), "bodies of "+site.kind+" are no longer borrow-checked with a fresh loan table")
	}
	// checkBorrowRules is called from the analysis driver
	called := false
	for _, fn := range c.AllFns(pkgHIRAn) {
		if fn.Obj != top.Obj && nodeCalls(fn.Info(), fn.Decl.Body, top.Obj) != nil {
			called = true
		}
	}
	r.Check(called, rule, top.Name(), "called by the analysis driver", c.pos(top.Decl.Pos()), "the borrow checker is no longer run")
}

func c07R6(c *Ctx, r *Report) {
	const rule = "C07.R6"
	r.Describe(rule, "returned references: checkReturnLifetime runs on every return with a value, collects loans through calls/parens/casts/coalescing/unwraps, and treats by-value parameters and receivers as locals")
	rs := c.LookupFn(pkgHIRAn, borrowRecv+"checkReturnStmt")
	rl := c.LookupFn(pkgHIRAn, borrowRecv+"checkReturnLifetime")
	if !r.Anchor(rule, rs != nil && rl != nil, "borrow.go checkReturnStmt / checkReturnLifetime") {
		return
	}
	info := rs.Info()
	// every exit of checkReturnStmt either passed checkReturnLifetime or left through the nil-result guard
	hits := mustFlow(c.CFG(rs), FlowSpec{
		Gate: func(n ast.Node) bool { return nodeCalls(info, n, rl.Obj) != nil },
		EdgeGate: func(b *cfg.Block, succ int) bool {
			cond := condOf(b)
			if cond == nil || succ != 0 {
				return false
			}
			for _, d := range disjuncts(cond) {
				be, ok := isBinOp(d, token.EQL)
				if !ok || exprStr(be.Y) != "nil" {
					return false
				}
			}
			return true
		},
		AtReturn: true,
	})
	r.Check(len(hits) == 0, rule, rs.Name(), "every `return value` reaches checkReturnLifetime", where(c, rs, hits), "a return statement with a value can leave the checker without the dangling-reference test")
	// the kinds looked through
	need := map[string][]string{
		"collectBorrowedBases": {"UnaryExpr", "CallExpr", "ParenExpr", "CastExpr", "CoalescingExpr", "OptionalUnwrap", "ResultUnwrap"},
		"collectRefOperands":   {"Ident", "CallExpr", "ParenExpr", "CastExpr", "CoalescingExpr", "OptionalUnwrap", "ResultUnwrap"},
	}
	reach := reachableFns(c, rl)
	for _, name := range sortedKeys(need) {
		fn := c.LookupFn(pkgHIRAn, borrowRecv+name)
		if !r.Check(fn != nil && reach[fn.Obj], rule, rl.Name(), "uses "+name, c.pos(rl.Decl.Pos()), "checkReturnLifetime no longer collects its sources through "+name+" (a reference returned through a call such as `return id(&'x)` is not recognised as pointing to a local)") {
			continue
		}
		covered := map[string]bool{}
		ast.Inspect(fn.Decl.Body, func(x ast.Node) bool {
			if cc, ok := x.(*ast.CaseClause); ok {
				for _, t := range caseTypes(fn.Info(), cc) {
					if nt := namedOf(t); nt != nil {
						covered[nt.Obj().Name()] = true
					}
				}
			}
			return true
		})
		for _, k := range need[name] {
			r.Check(covered[k], rule, fn.Name(), "looks through *hir."+k, c.pos(fn.Decl.Pos()), "a reference flowing through *hir."+k+" is not followed: returning (or binding) it escapes the lifetime check")
		}
	}
	// parameters count as locals
	usesKind := false
	for f := range reach {
		if fn := c.FnOf(f); fn != nil && fn.Decl.Body != nil {
			ast.Inspect(fn.Decl.Body, func(x ast.Node) bool {
				if id, ok := x.(*ast.Ident); ok && (id.Name == "SymbolParameter") {
					usesKind = true
				}
				return true
			})
		}
	}
	r.Check(usesKind, rule, rl.Name(), "by-value parameters are locals", c.pos(rl.Decl.Pos()), "`fn f(a: i32) -> &i32 { return &a; }` is accepted: the parameter copy dies with the call")
}

// reachableFns: functions of the module reachable from fn through static calls (AST level).
func reachableFns(c *Ctx, fn *Fn) map[*types.Func]bool {
	seen := map[*types.Func]bool{fn.Obj: true}
	work := []*Fn{fn}
	for len(work) > 0 {
		f := work[len(work)-1]
		work = work[:len(work)-1]
		for _, call := range callsIn(f.Decl.Body, true) {
			if g := callee(f.Info(), call); g != nil && !seen[g] {
				if gf := c.FnOf(g); gf != nil && gf.Decl.Body != nil {
					seen[g] = true
					work = append(work, gf)
				}
			}
		}
	}
	return seen
}

// C07.R7: write-through lowering of references (mir/gen).
func c07R7(c *Ctx, r *Report) {
	const rule = "C07.R7"
	r.Describe(rule, "mir/gen: a parameter's address slot is created and initialised in the entry block; assignment through a reference stores to the loaded pointer")
	afi := c.LookupFn(pkgMIRGen, "(*functionBuilder).addrForIdent")
	allocE := c.LookupFn(pkgMIRGen, "(*functionBuilder).emitAllocaInEntry")
	storeE := c.LookupFn(pkgMIRGen, "(*functionBuilder).emitStoreInEntry")
	store := c.LookupFn(pkgMIRGen, "(*functionBuilder).emitStore")
	load := c.LookupFn(pkgMIRGen, "(*functionBuilder).emitLoad")
	la := c.LookupFn(pkgMIRGen, "(*functionBuilder).lowerAssign")
	if !r.Anchor(rule, afi != nil && allocE != nil && store != nil && load != nil && la != nil, "mir/gen addrForIdent / emitAllocaInEntry / emitStore / emitLoad / lowerAssign") {
		return
	}
	info := afi.Info()
	// the block that spills a parameter: contains emitAllocaInEntry and an assignment to b.slots[...]
	found := false
	ast.Inspect(afi.Decl.Body, func(x ast.Node) bool {
		blk, ok := x.(*ast.BlockStmt)
		if !ok {
			return true
		}
		var allocVar types.Object
		cached := false
		var stores []*ast.CallExpr
		for _, st := range blk.List {
			if as, ok := st.(*ast.AssignStmt); ok && len(as.Lhs) == 1 && len(as.Rhs) == 1 {
				if cl, ok := as.Rhs[0].(*ast.CallExpr); ok && isCallTo(info, cl, allocE.Obj) {
					allocVar = objOf(info, as.Lhs[0])
				}
				if ix, ok := as.Lhs[0].(*ast.IndexExpr); ok && strings.HasSuffix(exprStr(ix.X), ".slots") && allocVar != nil && objOf(info, as.Rhs[0]) == allocVar {
					cached = true
				}
			}
			if es, ok := st.(*ast.ExprStmt); ok {
				if cl, ok := es.X.(*ast.CallExpr); ok && len(cl.Args) >= 2 && allocVar != nil && objOf(info, cl.Args[0]) == allocVar {
					stores = append(stores, cl)
				}
			}
		}
		if allocVar == nil || !cached {
			return true
		}
		found = true
		okEntry := len(stores) > 0 && storeE != nil
		for _, cl := range stores {
			if storeE == nil || !isCallTo(info, cl, storeE.Obj) {
				okEntry = false
			}
		}
		r.Check(okEntry, rule, afi.Name(), "parameter slot initialised in the entry block", c.pos(blk.Pos()),
			"the slot is allocated in the entry block and cached for the whole function, but its initial value is stored at the current insertion point: when the first address-taking use is inside a loop the parameter is re-spilled on every iteration (writes through the reference are lost), inside an untaken branch the slot is never initialised")
		return true
	})
	r.Check(found, rule, afi.Name(), "parameter spill site present", c.pos(afi.Decl.Pos()), "anchor: the parameter spill (emitAllocaInEntry + slots[...]) was not found")
	if storeE != nil {
		appendsEntry := false
		ast.Inspect(storeE.Decl.Body, func(x ast.Node) bool {
			if as, ok := x.(*ast.AssignStmt); ok && len(as.Lhs) == 1 && strings.HasSuffix(exprStr(as.Lhs[0]), ".entry.Instrs") {
				appendsEntry = true
			}
			return true
		})
		r.Check(appendsEntry, rule, storeE.Name(), "appends to the entry block", c.pos(storeE.Decl.Pos()), "emitStoreInEntry no longer emits into the entry block")
	}
	// lowerAssign: under `ref, ok := UnwrapType(lhsStorageType).(*ReferenceType)`, stores go to the loaded pointer
	linfo := la.Info()
	n, bad := 0, 0
	ast.Inspect(la.Decl.Body, func(x ast.Node) bool {
		ifs, ok := x.(*ast.IfStmt)
		if !ok || ifs.Init == nil || !strings.Contains(exprStr(ifs.Cond), "ok") {
			return true
		}
		as, ok := ifs.Init.(*ast.AssignStmt)
		if !ok || len(as.Rhs) != 1 {
			return true
		}
		ta, ok := as.Rhs[0].(*ast.TypeAssertExpr)
		if !ok || !strings.HasSuffix(exprStr(ta.Type), "ReferenceType") {
			return true
		}
		// refPtr := b.emitLoad(addr, ...)
		var refPtr types.Object
		for _, st := range ifs.Body.List {
			if a2, ok := st.(*ast.AssignStmt); ok && len(a2.Lhs) == 1 && len(a2.Rhs) == 1 {
				if cl, ok := a2.Rhs[0].(*ast.CallExpr); ok && isCallTo(linfo, cl, load.Obj) && refPtr == nil {
					refPtr = objOf(linfo, a2.Lhs[0])
				}
			}
		}
		for _, cl := range callsIn(ifs.Body, false) {
			if isCallTo(linfo, cl, store.Obj) {
				n++
				if refPtr == nil || objOf(linfo, cl.Args[0]) != refPtr {
					bad++
				}
				continue
			}
			// a helper of this package that is handed the loaded pointer does the store
			if f := callee(linfo, cl); f != nil && c.FnOf(f) != nil && refPtr != nil {
				for _, a := range cl.Args {
					if objOf(linfo, a) == refPtr && f != load.Obj {
						n++
					}
				}
			}
		}
		return false
	})
	r.Check(n >= 1 && bad == 0, rule, la.Name(), "assignment through a reference stores to the loaded pointer", c.pos(la.Decl.Pos()),
		fmt.Sprintf("%d of %d stores in the reference branch of lowerAssign do not target the pointer loaded from the reference variable: the write lands in the reference's own slot and is not visible through the referent", bad, n))
}
