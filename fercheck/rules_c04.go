package main

import (
	"fmt"
	"go/ast"
	"go/constant"
	"go/token"
	"go/types"
	"strings"
)

const pkgMIR = "internal/mir"

func init() {
	register("C04", &propSpec{
		Explanation: "Structural necessary conditions of in-bounds, right-element fixed-array access: (R1) flow-dependent compile-time facts (Symbol.ConstValue) are consumed by code generation only at recorded sites, each either guarded by immutability or listed as the known flow-insensitivity finding; (R4) every run-time index that reaches an ArrayGet/ArraySet comes out of emitBoundsCheckedIndex, whose shape is: negative index + length, out-of-bounds iff idx < 0 or idx >= len, branch to a block that calls ferret_global_panic and ends in Unreachable; constArrayIndex accepts only 0 <= i < Length after normalising negatives; (R5) the compile-time bounds check runs on every IndexExpr the HIR generator builds and reports with an Error; (R6) the native store of a fixed-array element writes the value, not the address of its spill slot. Does not decide element address arithmetic beyond SizeOf, nor what QBE does with the access.",
		Quick:       []ruleFn{c04R1, c04R4, c04R5, c04R6},
	})
	register("C08", &propSpec{
		Explanation: "Structural necessary conditions of run-time bounds checking for dynamic arrays and strings: (R1) every dynamic-array / string index value passes emitBoundsCheckedIndex with a length read at run time from the same array (emitArrayLen / emitStringLen), after the index operand has been evaluated; (R2) statically remembered literal lengths are dropped when the array is borrowed mutably (append) or reassigned; (R3) the C runtime's array get/set guard every element address with arr==NULL || index<0 || index>=length, growth strictly increases capacity and realloc results are checked through a temporary; (R4) the panic helper flushes stdout before abort and never returns. Does not decide the QBE/WASM emission of the check blocks.",
		Quick:       []ruleFn{c08R1, c08R2, c08R3, c08R4},
	})
}

// localDefs: single-identifier definitions/assignments in a function: name object -> RHS expressions.
func localDefs(fn *Fn) map[types.Object][]ast.Expr {
	info := fn.Info()
	out := map[types.Object][]ast.Expr{}
	ast.Inspect(fn.Decl.Body, func(n ast.Node) bool {
		as, ok := n.(*ast.AssignStmt)
		if !ok || len(as.Lhs) != len(as.Rhs) {
			return true
		}
		for i, l := range as.Lhs {
			if id, ok := l.(*ast.Ident); ok {
				o := info.Defs[id]
				if o == nil {
					o = info.Uses[id]
				}
				if o != nil {
					out[o] = append(out[o], as.Rhs[i])
				}
			}
		}
		return true
	})
	return out
}

var c04R1Reviewed = map[string]string{
	"mir/gen.(*functionBuilder).foldIntegerLiterals":  "evaluates expressions built from integer literals, parentheses, unary minus and arithmetic operators only (C10.R7 checks that the selecting predicate has no case for identifiers), so no symbol's flow-insensitive value is read",
	"mir/gen.(*functionBuilder).lookupQualifiedConst": "reads the ConstValue of a *module-level* symbol of another module; module-level variables cannot be used inside functions (MIR lowering rejects the identifier), so they are never reassigned and the value is the initialiser's",
}

func c04R1(c *Ctx, r *Report) {
	const rule = "C04.R1"
	r.Describe(rule, "code-generation readers of Symbol.ConstValue are guarded by symbol immutability (Kind == SymbolConstant), or the analysis that writes it drops the value of every non-constant symbol at the end of the function walk (the only writer of a non-nil value records the symbol, and the walk of a function body ends with a loop that sets ConstValue = nil for the recorded symbols whose Kind is not SymbolConstant)")
	constField := c.fieldObj(pkgSymbols, "Symbol", "ConstValue")
	evalFn := c.LookupFn("internal/hir/consteval", "EvaluateHIRExpr")
	constKind, _ := c.lookupObj(pkgSymbols, "SymbolConstant").(*types.Const)
	if !r.Anchor(rule, constField != nil && evalFn != nil && constKind != nil, "Symbol.ConstValue / EvaluateHIRExpr / SymbolConstant") {
		return
	}
	// The other way to make the readers safe lies with the writer: if the analysis drops the value of every
	// variable (non-constant symbol) when the walk of its function is over, later phases can only ever see the
	// values of constants — what was decided for a variable has been folded into the tree at the point of use
	// (C04.R9). In that case an unguarded reader is accepted.
	writerDrops := c04WriterDropsVariables(c, r, rule, constField, constKind)
	n := 0
	for _, p := range c.Pkgs {
		rel := relOf(p.PkgPath)
		if !(strings.HasPrefix(rel, "internal/mir/gen") || strings.HasPrefix(rel, "internal/codegen")) {
			continue
		}
		for _, fn := range c.AllFns(rel) {
			info := fn.Info()
			reads := ""
			var pos token.Pos
			ast.Inspect(fn.Decl.Body, func(nd ast.Node) bool {
				switch x := nd.(type) {
				case *ast.SelectorExpr:
					if f := fieldOf(info, x); f == constField && reads == "" {
						reads, pos = "Symbol.ConstValue", x.Pos()
					}
				case *ast.CallExpr:
					if isCallTo(info, x, evalFn.Obj) && reads == "" {
						reads, pos = "consteval.EvaluateHIRExpr", x.Pos()
					}
				}
				return true
			})
			if reads == "" {
				continue
			}
			n++
			// guarded if the function tests Kind == SymbolConstant somewhere dominating the read (approximation: any such test in the function)
			guarded := false
			ast.Inspect(fn.Decl.Body, func(nd ast.Node) bool {
				if b, ok := nd.(*ast.BinaryExpr); ok && b.Op == token.EQL && (constObj(info, b.Y) == constKind || constObj(info, b.X) == constKind) {
					guarded = true
				}
				return true
			})
			if reason, ok := c04R1Reviewed[fn.Name()]; ok {
				r.OK(rule, fn.Name(), "reads "+reads, c.pos(pos), "reviewed: "+reason)
				continue
			}
			r.Check(guarded || writerDrops, rule, fn.Name(), "reads "+reads+" unguarded", c.pos(pos),
				"code generation uses the value the constant-propagation walk last assigned to a variable, without checking that the variable is immutable: for a reassigned, loop-carried or conditionally assigned index the emitted access uses a value the variable does not have at that point of execution")
		}
	}
	r.Floor(rule, n, 3, "code-generation readers of compile-time values")
}

// c04R4: bounds check shape and def-use of index operands.
func c04R4(c *Ctx, r *Report) {
	const rule = "C04.R4"
	r.Describe(rule, "run-time indices of ArrayGet/ArraySet come from emitBoundsCheckedIndex; its shape is exact; constArrayIndex accepts only in-range constants")
	bc := c.LookupFn(pkgMIRGen, "(*functionBuilder).emitBoundsCheckedIndex")
	eb := c.LookupFn(pkgMIRGen, "(*functionBuilder).emitBinary")
	ec := c.LookupFn(pkgMIRGen, "(*functionBuilder).emitConst")
	if !r.Anchor(rule, bc != nil && eb != nil && ec != nil, "mir/gen emitBoundsCheckedIndex / emitBinary / emitConst") {
		return
	}
	checkBoundsShape(c, r, rule, bc, eb, ec)
	entries := boundsEntries(c, bc)
	// def-use: Index field of every ArrayGet / ArraySet literal in mir/gen
	n := 0
	for _, fn := range c.AllFns(pkgMIRGen) {
		info := fn.Info()
		defs := localDefs(fn)
		ast.Inspect(fn.Decl.Body, func(nd ast.Node) bool {
			cl, ok := nd.(*ast.CompositeLit)
			if !ok {
				return true
			}
			isGet := isNamed(info.TypeOf(cl), Mod+"/"+pkgMIR, "ArrayGet")
			isSet := isNamed(info.TypeOf(cl), Mod+"/"+pkgMIR, "ArraySet")
			if !isGet && !isSet {
				return true
			}
			for _, el := range cl.Elts {
				kv, ok := el.(*ast.KeyValueExpr)
				if !ok {
					continue
				}
				if id, ok := kv.Key.(*ast.Ident); !ok || id.Name != "Index" {
					continue
				}
				n++
				kind := map[bool]string{true: "ArrayGet", false: "ArraySet"}[isGet]
				construct := fmt.Sprintf("%s #%d Index: %s", kind, n, exprStr(kv.Value))
				vid, ok := ast.Unparen(kv.Value).(*ast.Ident)
				if !ok {
					r.Fail(rule, fn.Name(), construct, c.pos(kv.Pos()), "index operand is not a local value whose origin can be traced")
					continue
				}
				// the *last* definition before the literal must be emitBoundsCheckedIndex(...) or a constant from emitConst
				var last ast.Expr
				for _, d := range defs[info.Uses[vid]] {
					if d.Pos() < cl.Pos() {
						last = d
					}
				}
				okOrigin := false
				if call, ok := ast.Unparen(last).(*ast.CallExpr); ok {
					if isBoundsEntry(entries, info, call) != nil || isCallTo(info, call, ec.Obj) {
						okOrigin = true
					}
				}
				if last == nil {
					// a parameter: the callers must pass a checked value — only allowed for helpers whose every caller does
					okOrigin = false
				}
				r.Check(okOrigin, rule, fn.Name(), construct, c.pos(kv.Pos()),
					"the index of this element access does not come out of emitBoundsCheckedIndex (or a compile-time constant): an out-of-range run-time index reads or writes outside the array")
			}
			return true
		})
	}
	r.Floor(rule, n, 3, "ArrayGet/ArraySet constructions in mir/gen")
	// constArrayIndex
	ci := c.LookupFn(pkgMIRGen, "(*functionBuilder).constArrayIndex")
	if ci != nil {
		// who-may-call: the flow-insensitive constant index (known finding C04.R1) may only serve the reads that
		// require a compile-time index; every other access (stores, dynamic arrays) must use the run-time value
		// (the restriction exists because of the flow-insensitive value; where the analysis drops the values of
		// variables when a function has been walked — C04.R1's writer-side invariant — the value constArrayIndex
		// sees is a constant's and any access path may use it)
		allowed := map[string]bool{"lowerIndexAddr": true, "lowerIndexValue": true}
		writerDrops := false
		if cf, ck := c.fieldObj(pkgSymbols, "Symbol", "ConstValue"), c.lookupObj(pkgSymbols, "SymbolConstant"); cf != nil && ck != nil {
			if kc, ok := ck.(*types.Const); ok {
				writerDrops = c04WriterDropsVariables(c, newReport("scratch", "quick"), "C04.R3", cf, kc)
			}
		}
		for _, fn := range c.AllFns(pkgMIRGen) {
			for _, cl := range callsIn(fn.Decl.Body, true) {
				if isCallTo(fn.Info(), cl, ci.Obj) {
					r.Check(allowed[fn.Obj.Name()] || writerDrops, "C04.R3", fn.Name(), "calls constArrayIndex", c.pos(cl.Pos()),
						"a further access path resolves its index through the flow-insensitive compile-time value instead of the run-time value + bounds check: for a reassigned or loop-carried index the access touches a different element than the one indexed, without any run-time check")
				}
			}
		}
	}
	if r.Anchor(rule, ci != nil, "mir/gen.constArrayIndex") {
		info := ci.Info()
		var negAdd, lowTest, highTest bool
		ast.Inspect(ci.Decl.Body, func(nd ast.Node) bool {
			switch x := nd.(type) {
			case *ast.IfStmt:
				if b, ok := isBinOp(x.Cond, token.LSS); ok {
					if v := constOf(info, b.Y); v != nil && intVal(v) == 0 {
						// `if idx < 0 { idx += Length }` or reject
						ast.Inspect(x.Body, func(y ast.Node) bool {
							if as, ok := y.(*ast.AssignStmt); ok && (as.Tok == token.ADD_ASSIGN || as.Tok == token.ASSIGN) && strings.Contains(exprStr(as.Rhs[0]), "Length") {
								negAdd = true
							}
							return true
						})
					}
				}
				for _, d := range disjuncts(x.Cond) {
					if b, ok := isBinOp(d, token.LSS); ok {
						if v := constOf(info, b.Y); v != nil && intVal(v) == 0 {
							lowTest = true
						}
					}
					if b, ok := isBinOp(d, token.GEQ); ok && strings.Contains(exprStr(b.Y), "Length") {
						highTest = true
					}
				}
			}
			return true
		})
		r.Check(negAdd, rule, ci.Name(), "negative constant index + Length", c.pos(ci.Decl.Pos()), "negative constant indices are no longer normalised by adding the array length")
		r.Check(lowTest && highTest, rule, ci.Name(), "rejects idx < 0 || idx >= Length", c.pos(ci.Decl.Pos()), "a constant index outside [0, Length) is accepted for direct addressing")
	}
}

// boundsEntry is a function through which run-time indices are range-checked: emitBoundsCheckedIndex itself, or a
// same-package wrapper that hands its own index and length parameters (converted at most by castValue or a
// same-package narrowing helper) to it and returns the checked index.
type boundsEntry struct {
	fn             *Fn
	idxArg, lenArg int
}

func boundsEntries(c *Ctx, bc *Fn) []boundsEntry {
	out := []boundsEntry{{bc, 0, 1}}
	paramIndex := func(fn *Fn, o types.Object) int {
		sig := fn.Obj.Type().(*types.Signature)
		for i := 0; i < sig.Params().Len(); i++ {
			if sig.Params().At(i) == o {
				return i
			}
		}
		return -1
	}
	for _, fn := range c.AllFns(pkgMIRGen) {
		if fn.Obj == bc.Obj {
			continue
		}
		info := fn.Info()
		for _, call := range callsIn(fn.Decl.Body, false) {
			if !isCallTo(info, call, bc.Obj) || len(call.Args) < 2 {
				continue
			}
			ii, ok1 := ast.Unparen(call.Args[0]).(*ast.Ident)
			li, ok2 := ast.Unparen(call.Args[1]).(*ast.Ident)
			if !ok1 || !ok2 {
				continue
			}
			ip, lp := paramIndex(fn, info.Uses[ii]), paramIndex(fn, info.Uses[li])
			if ip < 0 || lp < 0 {
				continue
			}
			// every return hands back the invalid value or the (converted) index variable
			okRet := true
			ast.Inspect(fn.Decl.Body, func(x ast.Node) bool {
				if ret, ok := x.(*ast.ReturnStmt); ok && len(ret.Results) == 1 {
					if !mentionsVar(info, ret.Results[0], info.Uses[ii]) && !strings.HasSuffix(exprStr(ret.Results[0]), "InvalidValue") {
						okRet = false
					}
				}
				return true
			})
			if okRet {
				out = append(out, boundsEntry{fn, ip, lp})
			}
		}
	}
	return out
}

func isBoundsEntry(entries []boundsEntry, info *types.Info, call *ast.CallExpr) *boundsEntry {
	for i := range entries {
		if isCallTo(info, call, entries[i].fn.Obj) {
			return &entries[i]
		}
	}
	return nil
}

func checkBoundsShape(c *Ctx, r *Report, rule string, bc, eb, ec *Fn) {
	info := bc.Info()
	defs := localDefs(bc)
	toks := map[string]*types.Const{}
	for _, n := range []string{"LESS_TOKEN", "PLUS_TOKEN", "GREATER_EQUAL_TOKEN", "OR_TOKEN"} {
		toks[n], _ = c.lookupObj(pkgTokens, n).(*types.Const)
	}
	idxP, lenP := bc.ParamNamed("indexVal"), bc.ParamNamed("lenVal")
	if !r.Anchor(rule, idxP != nil && lenP != nil, "emitBoundsCheckedIndex(indexVal, lenVal, ...)") {
		return
	}
	type bin struct {
		tok  *types.Const
		a, b types.Object
		res  types.Object
	}
	var bins []bin
	zeroObj := types.Object(nil)
	for obj, rhss := range defs {
		for _, rhs := range rhss {
			call, ok := ast.Unparen(rhs).(*ast.CallExpr)
			if !ok {
				continue
			}
			if isCallTo(info, call, ec.Obj) && len(call.Args) >= 2 {
				if v := constOf(info, call.Args[1]); v != nil && constant.StringVal(v) == "0" {
					zeroObj = obj
				}
			}
			if isCallTo(info, call, eb.Obj) && len(call.Args) >= 3 {
				bins = append(bins, bin{constObj(info, call.Args[0]), objOf(info, call.Args[1]), objOf(info, call.Args[2]), obj})
			}
		}
	}
	find := func(tok string, a, b types.Object, commutative bool) types.Object {
		for _, x := range bins {
			if x.tok == toks[tok] && ((x.a == a && x.b == b) || (commutative && x.a == b && x.b == a)) {
				return x.res
			}
		}
		return nil
	}
	condNeg := find("LESS_TOKEN", idxP, zeroObj, false)
	idxNeg := find("PLUS_TOKEN", lenP, idxP, true)
	r.Check(condNeg != nil && zeroObj != nil, rule, bc.Name(), "tests index < 0", c.pos(bc.Decl.Pos()), "the negative-index test `indexVal < 0` is missing")
	r.Check(idxNeg != nil, rule, bc.Name(), "negative index: len + index", c.pos(bc.Decl.Pos()), "a negative index is not normalised by adding the length")
	// the adjusted index: result of a Phi with incoming idxNeg and indexVal
	var idxAdj types.Object
	ast.Inspect(bc.Decl.Body, func(nd ast.Node) bool {
		cl, ok := nd.(*ast.CompositeLit)
		if !ok || !isNamed(info.TypeOf(cl), Mod+"/"+pkgMIR, "Phi") {
			return true
		}
		var res types.Object
		vals := map[types.Object]bool{}
		ast.Inspect(cl, func(y ast.Node) bool {
			if kv, ok := y.(*ast.KeyValueExpr); ok {
				if id, ok := kv.Key.(*ast.Ident); ok {
					if id.Name == "Result" {
						res = objOf(info, kv.Value)
					}
					if id.Name == "Value" {
						o := objOf(info, kv.Value)
						// idxPos := indexVal
						for _, d := range defs[o] {
							if objOf(info, d) == types.Object(idxP) {
								o = idxP
							}
						}
						vals[o] = true
					}
				}
			}
			return true
		})
		if res != nil && vals[idxNeg] && vals[types.Object(idxP)] {
			idxAdj = res
		}
		return true
	})
	r.Check(idxAdj != nil, rule, bc.Name(), "adjusted index = phi(len+index, index)", c.pos(bc.Decl.Pos()), "the value tested and returned is not the merge of the normalised negative index and the original index")
	condLow := find("LESS_TOKEN", idxAdj, zeroObj, false)
	condHigh := find("GREATER_EQUAL_TOKEN", idxAdj, lenP, false)
	condOOB := find("OR_TOKEN", condLow, condHigh, true)
	r.Check(idxAdj != nil && condLow != nil, rule, bc.Name(), "out of bounds if adjusted < 0", c.pos(bc.Decl.Pos()), "the lower bound test on the adjusted index is missing (an index below -len would wrap around)")
	r.Check(idxAdj != nil && condHigh != nil, rule, bc.Name(), "out of bounds if adjusted >= len", c.pos(bc.Decl.Pos()), "the upper bound test must be `adjusted >= len` (GREATER_EQUAL against the length): `>` admits index == len, one element past the end")
	r.Check(condOOB != nil, rule, bc.Name(), "oob = low OR high", c.pos(bc.Decl.Pos()), "the two bound tests are not combined with OR")
	// CondBr{Cond: condOOB, Then: oobBlock.ID, Else: okBlock.ID}; oob block panics and is Unreachable; returns idxAdj
	okBr, okPanic, okUnreach := false, false, false
	var oobBlock types.Object
	ast.Inspect(bc.Decl.Body, func(nd ast.Node) bool {
		cl, ok := nd.(*ast.CompositeLit)
		if !ok {
			return true
		}
		if isNamed(info.TypeOf(cl), Mod+"/"+pkgMIR, "CondBr") {
			var cond, then types.Object
			for _, el := range cl.Elts {
				if kv, ok := el.(*ast.KeyValueExpr); ok {
					if id, ok := kv.Key.(*ast.Ident); ok {
						switch id.Name {
						case "Cond":
							cond = objOf(info, kv.Value)
						case "Then":
							if sel, ok := ast.Unparen(kv.Value).(*ast.SelectorExpr); ok {
								then = objOf(info, sel.X)
							}
						}
					}
				}
			}
			if cond != nil && cond == condOOB && then != nil {
				oobBlock = then
				okBr = true
			}
		}
		if isNamed(info.TypeOf(cl), Mod+"/"+pkgMIR, "Call") {
			for _, el := range cl.Elts {
				if kv, ok := el.(*ast.KeyValueExpr); ok {
					if id, ok := kv.Key.(*ast.Ident); ok && id.Name == "Target" {
						if v := constOf(info, kv.Value); v != nil && constant.StringVal(v) == "ferret_global_panic" {
							okPanic = true
						}
					}
				}
			}
		}
		return true
	})
	ast.Inspect(bc.Decl.Body, func(nd ast.Node) bool {
		as, ok := nd.(*ast.AssignStmt)
		if !ok || len(as.Lhs) != 1 {
			return true
		}
		if sel, ok := as.Lhs[0].(*ast.SelectorExpr); ok && sel.Sel.Name == "Term" && objOf(info, sel.X) == oobBlock && oobBlock != nil {
			if u, ok := as.Rhs[0].(*ast.UnaryExpr); ok {
				if cl, ok := u.X.(*ast.CompositeLit); ok && isNamed(info.TypeOf(cl), Mod+"/"+pkgMIR, "Unreachable") {
					okUnreach = true
				}
			}
		}
		return true
	})
	r.Check(okBr, rule, bc.Name(), "CondBr(oob) -> panic block", c.pos(bc.Decl.Pos()), "the out-of-bounds condition does not branch to the panic block on true (Then/Else swapped or wrong condition)")
	r.Check(okPanic, rule, bc.Name(), "panic block calls ferret_global_panic", c.pos(bc.Decl.Pos()), "the out-of-bounds block no longer calls ferret_global_panic")
	r.Check(okUnreach, rule, bc.Name(), "panic block ends in Unreachable", c.pos(bc.Decl.Pos()), "the out-of-bounds block falls through to the access after the panic call")
	retOK := false
	if res := trailingReturn(bc); len(res) == 1 && objOf(info, res[0]) == idxAdj && idxAdj != nil {
		retOK = true
	}
	r.Check(retOK, rule, bc.Name(), "returns the adjusted index", c.pos(bc.Decl.Pos()), "emitBoundsCheckedIndex returns something other than the checked, normalised index")
}

func c04R5(c *Ctx, r *Report) {
	const rule = "C04.R5"
	r.Describe(rule, "checkArrayBounds runs on every IndexExpr position (HIR traversal of the const-eval walk) and reports Error for idx < 0 || idx >= length after normalisation")
	wN, wB, wE := c.LookupFn(pkgHIRAn, "walkNodeConstEval"), c.LookupFn(pkgHIRAn, "walkBlockConstEval"), c.LookupFn(pkgHIRAn, "walkExprConstEval")
	cab := c.LookupFn(pkgHIRAn, "checkArrayBounds")
	if !r.Anchor(rule, wN != nil && wB != nil && wE != nil && cab != nil, "walk{Node,Block,Expr}ConstEval / checkArrayBounds") {
		return
	}
	// IndexExpr case calls checkArrayBounds
	found := false
	for _, ts := range typeSwitchesOn(wE.Info(), wE.Decl.Body, wE.ParamNamed("expr")) {
		for _, cc := range caseClauses(ts.Body) {
			for _, t := range caseTypes(wE.Info(), cc) {
				if nn := namedOf(t); nn != nil && nn.Obj().Name() == "IndexExpr" {
					for _, s := range cc.Body {
						if nodeCalls(wE.Info(), s, cab.Obj) != nil {
							found = true
						}
					}
				}
			}
		}
	}
	r.Check(found, rule, wE.Name(), "case *hir.IndexExpr -> checkArrayBounds", c.pos(wE.Decl.Pos()), "index expressions are no longer bounds-checked at compile time")
	last, any := hirWalkerVisited(c, pkgHIRAn, []*Fn{wN, wB, wE}, []string{"node", "block", "expr"})
	u := buildHIRUniverse(c, "internal/hir/gen")
	n := checkHIRTraversal(c, r, rule, "const-eval walk", u, last, any, map[string]string{}, func(pair string) string {
		return "index expressions stored in hir." + pair + " are not visited by the constant-propagation walk: a constant out-of-range index there is not rejected"
	})
	r.Floor(rule, n, 40, "HIR (kind, child) pairs")
	// checkArrayBounds reports NewError under index < 0 || index >= length
	info := cab.Info()
	newErr := c.LookupFn("internal/diagnostics", "NewError")
	okCmp := false
	ast.Inspect(cab.Decl.Body, func(nd ast.Node) bool {
		ifs, ok := nd.(*ast.IfStmt)
		if !ok || newErr == nil || nodeCalls(info, ifs.Body, newErr.Obj) == nil {
			return true
		}
		low, high := false, false
		for _, d := range disjuncts(ifs.Cond) {
			if b, ok := isBinOp(d, token.LSS); ok {
				if v := constOf(info, b.Y); v != nil && intVal(v) == 0 {
					low = true
				}
			}
			if _, ok := isBinOp(d, token.GEQ); ok {
				high = true
			}
		}
		if low && high {
			okCmp = true
		}
		return true
	})
	r.Check(okCmp, rule, cab.Name(), "Error when idx < 0 || idx >= length", c.pos(cab.Decl.Pos()), "the compile-time bounds diagnostic is no longer reported for exactly the indices outside [0, length)")
}

// c04R6: the native store of a fixed-array element stores the value.
func c04R6(c *Ctx, r *Report) {
	const rule = "C04.R6"
	r.Describe(rule, "qbe emitArraySet: the fixed-array branch stores the value (storeValueToAddr / value name), never an address obtained from valueAddr/stackAlloc")
	fn := c.LookupFn(pkgQBE, "(*Generator).emitArraySet")
	va := c.LookupFn(pkgQBE, "(*Generator).valueAddr")
	sv := c.LookupFn(pkgQBE, "(*Generator).storeValueToAddr")
	emitLine := c.LookupFn(pkgQBE, "(*Generator).emitLine")
	if !r.Anchor(rule, fn != nil && va != nil && sv != nil && emitLine != nil, "qbe emitArraySet / valueAddr / storeValueToAddr / emitLine") {
		return
	}
	info := fn.Info()
	defs := localDefs(fn)
	addrVars := map[types.Object]bool{}
	for o, rhss := range defs {
		for _, rhs := range rhss {
			if call, ok := ast.Unparen(rhs).(*ast.CallExpr); ok && isCallTo(info, call, va.Obj) {
				addrVars[o] = true
			}
		}
	}
	bad := token.NoPos
	stores := 0
	ast.Inspect(fn.Decl.Body, func(nd ast.Node) bool {
		call, ok := nd.(*ast.CallExpr)
		if !ok {
			return true
		}
		if isCallTo(info, call, sv.Obj) {
			stores++
		}
		if !isCallTo(info, call, emitLine.Obj) || len(call.Args) != 1 {
			return true
		}
		sp, ok := ast.Unparen(call.Args[0]).(*ast.CallExpr)
		if !ok || len(sp.Args) < 3 {
			return true
		}
		if v := constOf(info, sp.Args[0]); v != nil && constant.StringVal(v) == "%s %s, %s" {
			// store instruction: <op> <value>, <addr>
			stores++
			if id, ok := ast.Unparen(sp.Args[2]).(*ast.Ident); ok && addrVars[info.Uses[id]] {
				bad = call.Pos()
			}
		}
		return true
	})
	r.Check(!bad.IsValid() && stores >= 1, rule, fn.Name(), "element store writes the value", c.pos(fn.Decl.Pos()), "the store instruction of the fixed-array branch takes the *address* of the value's spill slot as the value to store ("+c.pos(bad)+"): the element receives a stack address")
}

// ---- C08 ------------------------------------------------------------------------------------------------

func c08R1(c *Ctx, r *Report) {
	const rule = "C08.R1"
	r.Describe(rule, "dynamic-array and string indexing: emitBoundsCheckedIndex with a run-time length of the same array, read after the index operand was lowered")
	bc := c.LookupFn(pkgMIRGen, "(*functionBuilder).emitBoundsCheckedIndex")
	alen := c.LookupFn(pkgMIRGen, "(*functionBuilder).emitArrayLen")
	slen := c.LookupFn(pkgMIRGen, "(*functionBuilder).emitStringLen")
	lower := c.LookupFn(pkgMIRGen, "(*functionBuilder).lowerExpr")
	if !r.Anchor(rule, bc != nil && alen != nil && slen != nil && lower != nil, "emitBoundsCheckedIndex / emitArrayLen / emitStringLen / lowerExpr") {
		return
	}
	n := 0
	entries := boundsEntries(c, bc)
	isEntryFn := func(fn *Fn) bool {
		for _, e := range entries {
			if e.fn.Obj == fn.Obj {
				return true
			}
		}
		return false
	}
	for _, fn := range c.AllFns(pkgMIRGen) {
		if isEntryFn(fn) {
			continue // the wrapper's own call is covered by boundsEntries; its call sites are checked below
		}
		info := fn.Info()
		defs := localDefs(fn)
		for _, origCall := range callsIn(fn.Decl.Body, false) {
			ent := isBoundsEntry(entries, info, origCall)
			if ent == nil || len(origCall.Args) <= ent.lenArg || len(origCall.Args) <= ent.idxArg {
				continue
			}
			// normalised view: Args[0] = index, Args[1] = length
			call := &ast.CallExpr{Fun: origCall.Fun, Lparen: origCall.Lparen, Args: []ast.Expr{origCall.Args[ent.idxArg], origCall.Args[ent.lenArg]}, Rparen: origCall.Rparen}
			n++
			construct := fmt.Sprintf("bounds check #%d len=%s", n, exprStr(call.Args[1]))
			lid, ok := ast.Unparen(call.Args[1]).(*ast.Ident)
			if !ok {
				r.Fail(rule, fn.Name(), construct, c.pos(call.Pos()), "length operand is not a traceable local")
				continue
			}
			var lenDef *ast.CallExpr
			for _, d := range defs[info.Uses[lid]] {
				if d.Pos() < call.Pos() {
					if cl, ok := ast.Unparen(d).(*ast.CallExpr); ok {
						lenDef = cl
					}
				}
			}
			// idiom: lenVal := nextValueID(); emitInstr(&mir.Call{Result: lenVal, Target: "ferret_string_len", Args: {base}})
			if lenDef != nil {
				if f := callee(info, lenDef); f != nil && f.Name() == "nextValueID" {
					runtimeLen := false
					var at token.Pos
					ast.Inspect(fn.Decl.Body, func(nd ast.Node) bool {
						cl, ok := nd.(*ast.CompositeLit)
						if !ok || !isNamed(info.TypeOf(cl), Mod+"/"+pkgMIR, "Call") || cl.Pos() > call.Pos() {
							return true
						}
						res, tgt := false, ""
						for _, el := range cl.Elts {
							if kv, ok := el.(*ast.KeyValueExpr); ok {
								if id, ok := kv.Key.(*ast.Ident); ok {
									if id.Name == "Result" && objOf(info, kv.Value) == info.Uses[lid] {
										res = true
									}
									if id.Name == "Target" {
										if v := constOf(info, kv.Value); v != nil {
											tgt = constant.StringVal(v)
										}
									}
								}
							}
						}
						if res && (tgt == "ferret_string_len" || tgt == "ferret_array_len" || tgt == "ferret_len_array" || tgt == "ferret_len_string") {
							runtimeLen, at = true, cl.Pos()
						}
						return true
					})
					var idxLower token.Pos
					if iid, ok := ast.Unparen(call.Args[0]).(*ast.Ident); ok {
						for _, d := range defs[info.Uses[iid]] {
							if cl, ok := ast.Unparen(d).(*ast.CallExpr); ok && isCallTo(info, cl, lower.Obj) && d.Pos() < call.Pos() {
								idxLower = d.Pos()
							}
						}
					}
					r.Check(runtimeLen && (!idxLower.IsValid() || idxLower < at), rule, fn.Name(), construct, c.pos(call.Pos()), "the length is not a run-time length call emitted after the index operand was lowered")
					continue
				}
			}
			if lenDef == nil {
				// a parameter of a helper: the helper must not lower the index itself (the caller read the length earlier),
				// and every caller must pass a run-time length
				helperLowers := nodeCalls(info, fn.Decl.Body, lower.Obj) != nil
				pidx := -1
				sig := fn.Obj.Type().(*types.Signature)
				for i := 0; i < sig.Params().Len(); i++ {
					if sig.Params().At(i) == info.Uses[lid] {
						pidx = i
					}
				}
				okCallers := pidx >= 0
				if pidx >= 0 {
					for _, caller := range c.AllFns(pkgMIRGen) {
						cinfo := caller.Info()
						cdefs := localDefs(caller)
						for _, cc := range callsIn(caller.Decl.Body, false) {
							if !isCallTo(cinfo, cc, fn.Obj) || pidx >= len(cc.Args) {
								continue
							}
							good := false
							if aid, ok := ast.Unparen(cc.Args[pidx]).(*ast.Ident); ok {
								for _, d := range cdefs[cinfo.Uses[aid]] {
									if cl, ok := ast.Unparen(d).(*ast.CallExpr); ok && (isCallTo(cinfo, cl, alen.Obj) || isCallTo(cinfo, cl, slen.Obj)) {
										good = true
									}
								}
							}
							if !good {
								okCallers = false
							}
						}
					}
				}
				r.Check(okCallers && !helperLowers, rule, fn.Name(), construct, c.pos(call.Pos()),
					"the length is passed in by the caller while this function lowers the index expression itself: the length was read before the index was evaluated (an index expression that appends and returns the new position is rejected although valid), or a caller passes a length that is not a run-time length")
				continue
			}
			f := callee(info, lenDef)
			switch {
			case f != nil && (f == alen.Obj || f == slen.Obj):
				// run-time length: must be read after the index operand was lowered (the index expression may grow the array)
				var idxLower token.Pos
				if iid, ok := ast.Unparen(call.Args[0]).(*ast.Ident); ok {
					for _, d := range defs[info.Uses[iid]] {
						if cl, ok := ast.Unparen(d).(*ast.CallExpr); ok && isCallTo(info, cl, lower.Obj) && d.Pos() < call.Pos() {
							idxLower = d.Pos()
						}
					}
				}
				r.Check(!idxLower.IsValid() || idxLower < lenDef.Pos(), rule, fn.Name(), construct, c.pos(call.Pos()),
					"the array length is read before the index expression is evaluated: an index expression that appends to the array and returns the new position is checked against the stale length and rejected although valid")
			case f != nil && f.Name() == "emitConst":
				// compile-time length: only legitimate for fixed arrays (arrType.Length >= 0 branch)
				guard := false
				walkWithStack(fn.Decl.Body, func(nd ast.Node, stack []ast.Node) bool {
					if nd != ast.Node(origCall) {
						return true
					}
					for _, a := range stack {
						if ifs, ok := a.(*ast.IfStmt); ok && containsNode(ifs.Body, origCall) {
							if b, ok := isBinOp(ifs.Cond, token.GEQ); ok && strings.HasSuffix(exprStr(b.X), ".Length") {
								guard = true
							}
						}
					}
					return false
				})
				r.Check(guard, rule, fn.Name(), construct, c.pos(call.Pos()), "a compile-time number is used as the length outside the fixed-array (Length >= 0) branch: a dynamic array's current length can differ")
			default:
				r.Fail(rule, fn.Name(), construct, c.pos(call.Pos()), "the length does not come from emitArrayLen / emitStringLen (run time) or the fixed array's declared length")
			}
		}
	}
	r.Floor(rule, n, 3, "emitBoundsCheckedIndex call sites")
}

func c08R2(c *Ctx, r *Report) {
	const rule = "C08.R2"
	r.Describe(rule, "arrayLiteralLengths / ConstValue are dropped on mutable borrow, ++/--, and non-literal reassignment")
	wE := c.LookupFn(pkgHIRAn, "walkExprConstEval")
	p := c.ByPath[Mod+"/"+pkgHIRAn]
	if !r.Anchor(rule, wE != nil && p != nil, "walkExprConstEval") {
		return
	}
	lens := p.Types.Scope().Lookup("arrayLiteralLengths")
	mutRef, _ := c.lookupObj(pkgTokens, "MUT_REF_TOKEN").(*types.Const)
	if !r.Anchor(rule, lens != nil && mutRef != nil, "analysis.arrayLiteralLengths / tokens.MUT_REF_TOKEN") {
		return
	}
	info := wE.Info()
	killed := false
	for _, ts := range typeSwitchesOn(info, wE.Decl.Body, wE.ParamNamed("expr")) {
		for _, cc := range caseClauses(ts.Body) {
			for _, t := range caseTypes(info, cc) {
				if nn := namedOf(t); nn == nil || nn.Obj().Name() != "UnaryExpr" {
					continue
				}
				ast.Inspect(&ast.BlockStmt{List: cc.Body}, func(nd ast.Node) bool {
					ifs, ok := nd.(*ast.IfStmt)
					if !ok {
						return true
					}
					if b, ok := isBinOp(ifs.Cond, token.EQL); ok && (constObj(info, b.Y) == mutRef || constObj(info, b.X) == mutRef) {
						for _, cl := range callsIn(ifs.Body, false) {
							if id, ok := ast.Unparen(cl.Fun).(*ast.Ident); ok && id.Name == "delete" && len(cl.Args) == 2 && objOf(info, cl.Args[0]) == lens {
								killed = true
							}
						}
					}
					return true
				})
			}
		}
	}
	r.Check(killed, rule, wE.Name(), "&'x drops the remembered literal length of x", c.pos(wE.Decl.Pos()),
		"the literal length remembered for a dynamic array survives `append(&'a, v)`: positions that exist only because of the append are rejected at compile time")
	// reads of arrayLiteralLengths happen only in checkArrayBounds
	for _, fn := range c.AllFns(pkgHIRAn) {
		finfo := fn.Info()
		ast.Inspect(fn.Decl.Body, func(nd ast.Node) bool {
			ix, ok := nd.(*ast.IndexExpr)
			if !ok || objOf(finfo, ix.X) != lens {
				return true
			}
			// a read (not the LHS of an assignment / delete)
			isWrite := false
			walkWithStack(fn.Decl.Body, func(x ast.Node, stack []ast.Node) bool {
				if x == ast.Node(ix) && len(stack) > 0 {
					if as, ok := stack[len(stack)-1].(*ast.AssignStmt); ok {
						for _, l := range as.Lhs {
							if l == ast.Expr(ix) {
								isWrite = true
							}
						}
					}
				}
				return true
			})
			if !isWrite {
				r.Check(fn.Obj.Name() == "checkArrayBounds" || fn.Obj.Name() == "rememberAssigned", rule, fn.Name(), "reads arrayLiteralLengths", c.pos(ix.Pos()), "the remembered literal length is consulted outside the compile-time bounds diagnostic (and the snapshot that puts it back for the else branch)")
			}
			return true
		})
	}
}

// ---- C runtime ---------------------------------------------------------------------------------------------

func c08R3(c *Ctx, r *Report) {
	const rule = "C08.R3"
	r.Describe(rule, "runtime/core/array.c: element addresses guarded by arr==NULL || index<0 || index>=length; growth strictly increases capacity; realloc through a checked temporary")
	cf, err := c.CParse("runtime/core/array.c")
	if err != nil {
		r.Fail(rule, "clang", "parse runtime/core/array.c", "-", err.Error())
		return
	}
	for _, name := range []string{"ferret_array_get", "ferret_array_set"} {
		fn := cf.Funcs[name]
		if !r.Anchor(rule, fn != nil, "array.c:"+name) {
			continue
		}
		body := fn.Body()
		n := 0
		fn.Walk(func(x *CNode) bool {
			if x.Kind != "BinaryOperator" || x.Opcode != "+" || !strings.Contains(x.Type, "*") {
				return true
			}
			if !strings.Contains(x.Src(), "->data") {
				return true
			}
			n++
			var stmt *CNode
			for s := x; s != nil; s = s.Parent {
				if s.Parent != nil && s.Parent.Kind == "CompoundStmt" {
					stmt = s
					break
				}
			}
			has := func(want ...string) bool {
				return cGuardedBy(body, stmt, func(d *CNode) bool {
					s := d.Src()
					for _, w := range want {
						if s == w {
							return true
						}
					}
					return false
				})
			}
			r.Check(has("(arr == NULL)", "(NULL == arr)", "!arr"), rule, "array.c:"+name, "guard arr == NULL", c.cpos(cf, x), "the element address is computed without a NULL test of the array")
			r.Check(has("(index < 0)", "(0 > index)"), rule, "array.c:"+name, "guard index < 0", c.cpos(cf, x), "a negative index reaches the element address computation")
			r.Check(has("(index >= arr->length)", "(arr->length <= index)"), rule, "array.c:"+name, "guard index >= arr->length", c.cpos(cf, x), "the upper bound guard is not `index >= arr->length` (e.g. `>` or a comparison with capacity): index == length, or any slot of spare capacity, is handed out")
			return true
		})
		r.Check(n >= 1, rule, "array.c:"+name, "element address computations found", c.cpos(cf, fn), "anchor: no `data + offset` expression")
	}
	// append: growth and realloc discipline
	ap := cf.Funcs["ferret_array_append"]
	if r.Anchor(rule, ap != nil, "array.c:ferret_array_append") {
		var growIf *CNode
		ap.Walk(func(x *CNode) bool {
			if x.Kind == "IfStmt" && len(x.Inner) >= 2 {
				s := x.Inner[0].Src()
				if s == "(arr->length >= arr->capacity)" || s == "(arr->length == arr->capacity)" || s == "(arr->capacity <= arr->length)" {
					growIf = x
				}
			}
			return true
		})
		r.Check(growIf != nil, rule, "array.c:ferret_array_append", "grows when length >= capacity", c.cpos(cf, ap), "the append path no longer grows the buffer exactly when it is full")
		if growIf != nil {
			// new capacity: linear form a*cap + b with a > 1 (or a == 1, b > 0)
			// every value the new capacity can take (initialiser or assignment, except clamping it *up* to a minimum)
			var capExprs []*CNode
			capVar := ""
			growIf.Walk(func(x *CNode) bool {
				if x.Kind == "VarDecl" && strings.Contains(x.Name, "capacity") {
					capVar = x.Name
					if len(x.Inner) > 0 {
						capExprs = append(capExprs, x.Inner[len(x.Inner)-1])
					}
				}
				return true
			})
			growIf.Walk(func(x *CNode) bool {
				if x.Kind == "BinaryOperator" && x.Opcode == "=" && len(x.Inner) == 2 && capVar != "" && x.Inner[0].Src() == capVar {
					// clamp up: if (new_capacity < MIN) new_capacity = MIN;
					clamp := false
					for p := x.Parent; p != nil && p != growIf; p = p.Parent {
						if p.Kind == "IfStmt" && len(p.Inner) >= 2 && p.Inner[0].Src() == "("+capVar+" < "+x.Inner[1].Src()+")" {
							clamp = true
						}
					}
					if !clamp {
						capExprs = append(capExprs, x.Inner[1])
					}
				}
				return true
			})
			if r.Check(len(capExprs) > 0, rule, "array.c:ferret_array_append", "new capacity expression", c.cpos(cf, growIf), "anchor: the growth branch computes no new capacity") {
				for i, capExpr := range capExprs {
					a, b, ok := cLinear(capExpr, "arr->capacity")
					r.Check(ok && (a > 1 || (a == 1 && b > 0)), rule, "array.c:ferret_array_append", fmt.Sprintf("new capacity #%d > old capacity", i+1), c.cpos(cf, capExpr),
						fmt.Sprintf("the new capacity `%s` evaluates to %.3g*capacity%+.3g: the buffer does not grow, and the element written after the branch lands past the end of the allocation", capExpr.Src(), a, b))
				}
			}
			// realloc via temporary and NULL test before assigning arr->data
			okRealloc := false
			growIf.Walk(func(x *CNode) bool {
				if x.Kind == "VarDecl" && len(x.Inner) > 0 {
					call := x.Inner[len(x.Inner)-1].strip()
					for call != nil && call.Kind == "CStyleCastExpr" && len(call.Inner) == 1 {
						call = call.Inner[0].strip()
					}
					if call != nil && call.Kind == "CallExpr" && call.Callee() == "realloc" {
						tmp := x.Name
						// next: if (tmp == NULL) return
						par := x.Parent
						for par != nil && par.Kind != "CompoundStmt" {
							par = par.Parent
						}
						if par != nil {
							for _, s := range par.Inner {
								if s.Kind == "IfStmt" && len(s.Inner) >= 2 && s.Inner[0].Src() == "("+tmp+" == NULL)" && cTerminates(s.Inner[1]) {
									okRealloc = true
								}
							}
						}
					}
				}
				return true
			})
			r.Check(okRealloc, rule, "array.c:ferret_array_append", "realloc into a temporary, NULL-checked", c.cpos(cf, growIf), "realloc's result is assigned without a NULL test (a failed allocation loses the buffer / is dereferenced)")
		}
		// the element write follows the growth branch and uses length*elem_size
		wrote := false
		ap.Walk(func(x *CNode) bool {
			if x.Kind == "CallExpr" && x.Callee() == "memcpy" && len(x.Args()) == 3 {
				s := x.Args()[0].Src()
				if strings.Contains(s, "arr->data") && strings.Contains(s, "arr->length") && strings.Contains(s, "arr->elem_size") && growIf != nil && x.Line > growIf.Line {
					wrote = true
				}
			}
			return true
		})
		r.Check(wrote, rule, "array.c:ferret_array_append", "writes at data + length*elem_size after the growth branch", c.cpos(cf, ap), "the appended element is not written at offset length*elem_size after capacity was ensured")
	}
}

// cLinear evaluates e as a*sym + b (floating), for +,-,*,/,<<,>> with integer literals.
func cLinear(e *CNode, sym string) (a, b float64, ok bool) {
	e = e.strip()
	if e == nil {
		return 0, 0, false
	}
	if e.Src() == sym {
		return 1, 0, true
	}
	switch e.Kind {
	case "IntegerLiteral":
		var v float64
		fmt.Sscanf(e.Value, "%g", &v)
		return 0, v, true
	case "CStyleCastExpr":
		if len(e.Inner) == 1 {
			return cLinear(e.Inner[0], sym)
		}
	case "BinaryOperator":
		if len(e.Inner) != 2 {
			return 0, 0, false
		}
		la, lb, lok := cLinear(e.Inner[0], sym)
		ra, rb, rok := cLinear(e.Inner[1], sym)
		if !lok || !rok {
			return 0, 0, false
		}
		switch e.Opcode {
		case "+":
			return la + ra, lb + rb, true
		case "-":
			return la - ra, lb - rb, true
		case "*":
			if la == 0 {
				return lb * ra, lb * rb, true
			}
			if ra == 0 {
				return la * rb, lb * rb, true
			}
		case "/":
			if ra == 0 && rb != 0 {
				return la / rb, lb / rb, true
			}
		case ">>":
			if ra == 0 {
				d := float64(int64(1) << uint(rb))
				return la / d, lb / d, true
			}
		case "<<":
			if ra == 0 {
				d := float64(int64(1) << uint(rb))
				return la * d, lb * d, true
			}
		}
	}
	return 0, 0, false
}

func c08R4(c *Ctx, r *Report) {
	const rule = "C08.R4"
	r.Describe(rule, "runtime/libs/panic.c: ferret_global_panic flushes stdout before abort() on every path and cannot return")
	cf, err := c.CParse("runtime/libs/panic.c")
	if err != nil {
		r.Fail(rule, "clang", "parse runtime/libs/panic.c", "-", err.Error())
		return
	}
	fn := cf.Funcs["ferret_global_panic"]
	if !r.Anchor(rule, fn != nil, "panic.c:ferret_global_panic") {
		return
	}
	body := fn.Body()
	// top-level statement order: an unconditional fflush(stdout) / fflush(NULL) before the unconditional abort()
	flushIdx, abortIdx := -1, -1
	for i, st := range body.Inner {
		s := st.strip()
		if s.Kind == "CallExpr" {
			switch s.Callee() {
			case "fflush":
				if len(s.Args()) == 1 && (s.Args()[0].Src() == "stdout" || s.Args()[0].Src() == "NULL") && flushIdx < 0 {
					flushIdx = i
				}
			case "abort", "_Exit":
				abortIdx = i
			case "exit":
				if len(s.Args()) == 1 && s.Args()[0].Src() != "0" {
					abortIdx = i
				}
			}
		}
	}
	r.Check(abortIdx >= 0, rule, "panic.c:ferret_global_panic", "ends in abort()", c.cpos(cf, fn), "the panic helper can return to the faulting access (no unconditional abort/non-zero exit)")
	r.Check(flushIdx >= 0 && flushIdx < abortIdx, rule, "panic.c:ferret_global_panic", "fflush(stdout) before abort()", c.cpos(cf, fn), "abort() does not flush stdio: lines printed before the panic are lost when stdout is a pipe or a file")
	// no return statement
	hasReturn := false
	fn.Walk(func(x *CNode) bool {
		if x.Kind == "ReturnStmt" {
			hasReturn = true
		}
		return true
	})
	r.Check(!hasReturn, rule, "panic.c:ferret_global_panic", "no return", c.cpos(cf, fn), "a return statement lets execution continue after an out-of-bounds access")
}

// c04WriterDropsVariables: in hir/analysis, (1) every assignment of a non-nil value to Symbol.ConstValue is in one
// function, which also stores the symbol into a package-level set S; the assignments in the snapshot/restore helper
// are excepted (they put back what was there); (2) the function that walks a function body ends with a range over S
// whose body sets ConstValue = nil under a test Kind != SymbolConstant.
func c04WriterDropsVariables(c *Ctx, r *Report, rule string, constField *types.Var, constKind *types.Const) bool {
	var writers []*Fn
	var set types.Object
	for _, fn := range c.AllFns(pkgHIRAn) {
		info := fn.Info()
		writes := false
		ast.Inspect(fn.Decl.Body, func(x ast.Node) bool {
			as, ok := x.(*ast.AssignStmt)
			if !ok || len(as.Lhs) != 1 || len(as.Rhs) != 1 {
				return true
			}
			sel, ok := ast.Unparen(as.Lhs[0]).(*ast.SelectorExpr)
			if !ok || fieldOf(info, sel) != constField {
				return true
			}
			if tv, ok := info.Types[as.Rhs[0]]; ok && tv.IsNil() {
				return true
			}
			writes = true
			return true
		})
		if writes {
			writers = append(writers, fn)
		}
	}
	var recorder *Fn
	for _, w := range writers {
		info := w.Info()
		ast.Inspect(w.Decl.Body, func(x ast.Node) bool {
			as, ok := x.(*ast.AssignStmt)
			if !ok || len(as.Lhs) != 1 {
				return true
			}
			if ix, ok := ast.Unparen(as.Lhs[0]).(*ast.IndexExpr); ok {
				if o := objOf(info, ix.X); o != nil && o.Parent() == w.Obj.Pkg().Scope() {
					set = o
					recorder = w
				}
			}
			return true
		})
	}
	if recorder == nil || set == nil {
		return false
	}
	for _, w := range writers {
		if w == recorder {
			continue
		}
		// a restore helper: assigns from a value it ranges over (a saved map), and is a method of the snapshot type
		if w.Obj.Type().(*types.Signature).Recv() != nil {
			continue
		}
		return false
	}
	// the set is never emptied without dropping the values it stands for: a loop over S that deletes from S also
	// sets ConstValue = nil under the kind test (a module-level `let g := 0` recorded before the first function is
	// walked would otherwise stay visible inside every function: `a[g]` read a[0] whatever g was at run time)
	leaks := false
	for _, fn := range c.AllFns(pkgHIRAn) {
		info := fn.Info()
		ast.Inspect(fn.Decl.Body, func(x ast.Node) bool {
			rs, ok := x.(*ast.RangeStmt)
			if !ok || objOf(info, rs.X) != set {
				return true
			}
			deletes, nilled, kindTest := false, false, false
			ast.Inspect(rs.Body, func(y ast.Node) bool {
				switch z := y.(type) {
				case *ast.CallExpr:
					if id, ok := z.Fun.(*ast.Ident); ok && id.Name == "delete" && len(z.Args) == 2 && objOf(info, z.Args[0]) == set {
						deletes = true
					}
				case *ast.AssignStmt:
					if len(z.Lhs) == 1 && len(z.Rhs) == 1 {
						if sel, ok := ast.Unparen(z.Lhs[0]).(*ast.SelectorExpr); ok && fieldOf(info, sel) == constField {
							if tv, ok := info.Types[z.Rhs[0]]; ok && tv.IsNil() {
								nilled = true
							}
						}
					}
				case *ast.BinaryExpr:
					if z.Op == token.NEQ && (constObj(info, z.Y) == constKind || constObj(info, z.X) == constKind) {
						kindTest = true
					}
				}
				return true
			})
			if deletes {
				if !r.Check(nilled && kindTest, rule, fn.Name(), "a loop that empties the set of symbols with a recorded value drops the values of the variables among them", c.pos(rs.Pos()),
					"the record of which symbols carry a compile-time value is cleared while the values stay on the symbols: a value recorded for a module-level variable before a function is walked is still there when the function's indices are folded — `let g := 0; fn main() { let a: [3]i32 = [10, 20, 30]; set(); io::Println(a[g]); } fn set() { g = 2; }` printed 10") {
					leaks = true
				}
			}
			return true
		})
	}
	if leaks {
		return false
	}
	// the dropping loop
	drops := false
	for _, fn := range c.AllFns(pkgHIRAn) {
		info := fn.Info()
		list := fn.Decl.Body.List
		for i, st := range list {
			rs, ok := st.(*ast.RangeStmt)
			if !ok || objOf(info, rs.X) != set {
				continue
			}
			nilled, kindTest := false, false
			ast.Inspect(rs.Body, func(x ast.Node) bool {
				switch y := x.(type) {
				case *ast.AssignStmt:
					if len(y.Lhs) == 1 && len(y.Rhs) == 1 {
						if sel, ok := ast.Unparen(y.Lhs[0]).(*ast.SelectorExpr); ok && fieldOf(info, sel) == constField {
							if tv, ok := info.Types[y.Rhs[0]]; ok && tv.IsNil() {
								nilled = true
							}
						}
					}
				case *ast.BinaryExpr:
					if y.Op == token.NEQ && (constObj(info, y.Y) == constKind || constObj(info, y.X) == constKind) {
						kindTest = true
					}
				}
				return true
			})
			// after the last walk of the body: no call that walks follows the loop
			after := false
			for _, later := range list[i+1:] {
				for _, cl := range callsIn(later, false) {
					if f := callee(info, cl); f != nil && strings.HasPrefix(f.Name(), "walk") {
						after = true
					}
				}
			}
			if nilled && kindTest && !after {
				drops = true
				r.OK(rule, fn.Name(), "variables' compile-time values are dropped when the function has been walked", c.pos(rs.Pos()), "later phases see constants' values only")
			}
		}
	}
	return drops
}
