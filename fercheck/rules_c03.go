package main

import (
	"fmt"
	"go/ast"
	"go/token"
	"go/types"
	"sort"
	"strings"

	"golang.org/x/tools/go/cfg"
)

const pkgAST = "internal/frontend/ast"
const pkgParser = "internal/frontend/parser"

func init() {
	register("C03", &propSpec{
		Explanation: "Structural necessary conditions for 'ill-typed programs are rejected': (R1) the type checker's traversal reaches every expression/statement child of every AST kind the parser builds (access-path reachability from checkExpr/checkNode to the checking sinks); (R2) undefined names are rejected by the resolver or the MIR identifier backstop; (R3a-d) every expected-type check, call gate, rule class and return/array-length rule has a reachable error report on all paths; (R4) code generation runs only behind HasErrors(); (R5) arithmetic and bitwise operators accept two typed operands only when their types are identical and every operator handed to checkBinaryExpr has a case.",
		Quick:       []ruleFn{c03R1},
	})
}

// astUniverse: AST struct kinds built by the parser, with their value-carrying child fields.
type astUniverse struct {
	kinds      map[string]*types.Named // built by the parser
	fields     map[string][]string     // kind -> child field names (expression/statement/block children)
	conduit    map[string]bool         // struct kinds that are not themselves passed to walkers (CatchClause, DeclItem ...)
	typeFields map[string][]string     // kind -> fields of TypeNode type
}

func buildASTUniverse(c *Ctx) *astUniverse {
	u := &astUniverse{fields: map[string][]string{}, conduit: map[string]bool{}, typeFields: map[string][]string{}}
	u.kinds = c.builtKinds(pkgAST, pkgParser)
	ap := c.ByPath[Mod+"/"+pkgAST]
	if ap == nil {
		return u
	}
	iface := func(name string) *types.Interface {
		if tn, ok := ap.Types.Scope().Lookup(name).(*types.TypeName); ok {
			if i, ok := tn.Type().Underlying().(*types.Interface); ok {
				return i
			}
		}
		return nil
	}
	nodeI, typeI := iface("Node"), iface("TypeNode")
	isTypeNodeT := func(t types.Type) bool {
		if typeI == nil {
			return false
		}
		if i, ok := t.Underlying().(*types.Interface); ok {
			// an interface that requires TypeExpr()
			for k := 0; k < i.NumMethods(); k++ {
				if i.Method(k).Name() == "TypeExpr" {
					return true
				}
			}
			return false
		}
		return types.Implements(t, typeI) || types.Implements(types.NewPointer(t), typeI)
	}
	var classify func(t types.Type, depth int) string // "value", "type", ""
	classify = func(t types.Type, depth int) string {
		switch x := t.(type) {
		case *types.Slice:
			return classify(x.Elem(), depth)
		case *types.Pointer:
			return classify(x.Elem(), depth)
		case *types.Alias:
			return classify(types.Unalias(x), depth)
		case *types.Named:
			if x.Obj().Pkg() != ap.Types {
				return ""
			}
			if _, ok := x.Underlying().(*types.Interface); ok {
				if isTypeNodeT(x) {
					return "type"
				}
				if nodeI != nil && types.Implements(x, nodeI) {
					return "value"
				}
				return ""
			}
			if _, ok := x.Underlying().(*types.Struct); ok {
				switch x.Obj().Name() {
				case "Block":
					return "value"
				case "IdentifierExpr", "BasicLit", "CommentGroup":
					return "" // names and literals carry no children
				}
				if isTypeNodeT(x) {
					return "type"
				}
				return "struct:" + x.Obj().Name()
			}
		}
		return ""
	}
	var visit func(n *types.Named)
	seen := map[string]bool{}
	visit = func(n *types.Named) {
		name := n.Obj().Name()
		if seen[name] {
			return
		}
		seen[name] = true
		st := n.Underlying().(*types.Struct)
		for i := 0; i < st.NumFields(); i++ {
			f := st.Field(i)
			if f.Embedded() {
				continue
			}
			cl := classify(f.Type(), 0)
			switch {
			case cl == "value":
				u.fields[name] = append(u.fields[name], f.Name())
			case cl == "type":
				u.typeFields[name] = append(u.typeFields[name], f.Name())
			case strings.HasPrefix(cl, "struct:"):
				inner := strings.TrimPrefix(cl, "struct:")
				if tn, ok := ap.Types.Scope().Lookup(inner).(*types.TypeName); ok {
					if in, ok := tn.Type().(*types.Named); ok {
						if _, built := u.kinds[inner]; built || true {
							// a struct-typed field: if that struct is an expression/statement kind it is a value child,
							// otherwise it is a conduit whose own children carry the obligations
							if nodeI != nil && (types.Implements(types.NewPointer(in), nodeI)) && !u.isConduitName(inner) {
								u.fields[name] = append(u.fields[name], f.Name())
							} else {
								u.conduit[inner] = true
								visit(in)
							}
						}
					}
				}
			}
		}
	}
	for _, n := range u.kinds {
		if isTypeNodeT(n) {
			continue
		}
		visit(n)
	}
	return u
}

// conduit structs: carry children but are never themselves handed to a walker as a node.
func (u *astUniverse) isConduitName(n string) bool {
	switch n {
	case "CatchClause", "CaseClause", "DeclItem", "Field", "KeyValueExpr", "ElseClause":
		return true
	}
	return false
}

var c03R1Exempt = map[string]string{
	"Field.Value": "set only for enum variants (`Red = 10`) inside an EnumType type node; checkExpr's EnumType case rejects every explicit value with reportExplicitEnumValue instead of type-checking it",
}

func c03R1(c *Ctx, r *Report) {
	const rule = "C03.R1"
	r.Describe(rule, "type-checker traversal completeness: every value child of every parser-built AST kind reaches checkExpr/checkNode/checkBlock")
	checkExpr, checkNode, checkBlock := c.LookupFn(pkgTC, "checkExpr"), c.LookupFn(pkgTC, "checkNode"), c.LookupFn(pkgTC, "checkBlock")
	if !r.Anchor(rule, checkExpr != nil && checkNode != nil && checkBlock != nil, "typechecker.checkExpr/checkNode/checkBlock") {
		return
	}
	fa := newFlow(c, []string{pkgTC}, []string{pkgAST}, []*Fn{checkExpr, checkNode, checkBlock})
	fa.run()
	paths := map[string]bool{}
	for p := range fa.paramPaths(checkExpr, "expr") {
		paths[p] = true
	}
	for p := range fa.paramPaths(checkNode, "node") {
		paths[p] = true
	}
	for p := range fa.paramPaths(checkBlock, "block") {
		paths[p] = true
	}
	visited := lastFieldPairs(paths)
	u := buildASTUniverse(c)
	set := c.fieldsSet(pkgAST, pkgParser)
	var kinds []string
	for k := range u.fields {
		kinds = append(kinds, k)
	}
	sort.Strings(kinds)
	n := 0
	for _, k := range kinds {
		_, built := u.kinds[k]
		if !built && !u.conduit[k] {
			continue
		}
		if k == "Module" {
			continue // root: CheckModule iterates Module.Nodes itself
		}
		for _, f := range u.fields[k] {
			pair := k + "." + f
			if !set[pair] {
				continue // the parser never stores a child there
			}
			if reason, ok := c03R1Exempt[pair]; ok {
				r.OK(rule, "typechecker traversal", pair, "-", "exempt: "+reason)
				continue
			}
			n++
			pos := "-"
			if nk := u.kinds[k]; nk != nil {
				pos = c.pos(nk.Obj().Pos())
			}
			r.Check(visited[pair], rule, "typechecker traversal", pair, pos,
				fmt.Sprintf("the child %s of AST kind %s never reaches checkExpr/checkNode/checkBlock from the type checker's walkers: an ill-typed expression in that position is only inferred, not checked", f, k))
		}
	}
	r.Floor(rule, n, 40, "AST (kind, child) pairs")
	r.Floor(rule, len(u.kinds), 40, "parser-built AST kinds")
	r.Note("C03.R1: %d reaching paths; visited pairs: %s", len(paths), strings.Join(sortedSet(visited), " "))
	r.Exhaust[rule] = true
}

const pkgResolver = "internal/semantics/resolver"

func init() { props["C03"].Quick = append(props["C03"].Quick, c03R2) }

// C03.R2: name-resolution completeness. Undefined identifiers are reported by the resolver only
// (the type checker's IdentifierExpr case returns TypeUnknown silently), so the resolver's walk must
// reach every value child too.
func c03R2(c *Ctx, r *Report) {
	const rule = "C03.R2"
	r.Describe(rule, "undefined names are rejected: each value child is resolved by the resolver, or the MIR identifier backstop reports it")
	rExpr, rNode, rBlock := c.LookupFn(pkgResolver, "resolveExpr"), c.LookupFn(pkgResolver, "resolveNode"), c.LookupFn(pkgResolver, "resolveBlock")
	if !r.Anchor(rule, rExpr != nil && rNode != nil && rBlock != nil, "resolver.resolveExpr/resolveNode/resolveBlock") {
		return
	}
	fa := newFlow(c, []string{pkgResolver}, []string{pkgAST}, []*Fn{rExpr, rNode, rBlock})
	fa.run()
	paths := map[string]bool{}
	for _, pp := range []map[string]bool{fa.paramPaths(rExpr, "expr"), fa.paramPaths(rNode, "node"), fa.paramPaths(rBlock, "block")} {
		for p := range pp {
			paths[p] = true
		}
	}
	visited := lastFieldPairs(paths)
	// Backstop: an identifier without a symbol that survives to MIR generation is rejected there
	// (observed: `for i in 0..zz {}` -> "MIR lowering unsupported: identifier zz"). The resolver's own
	// completeness is therefore not necessary for rejection; pairs it skips are accepted while the
	// backstop holds: every `return mir.InvalidValue` of loadIdent is preceded by a report.
	backstop := false
	if li := c.LookupFn("internal/mir/gen", "(*functionBuilder).loadIdent"); r.Anchor(rule, li != nil, "mir/gen.(*functionBuilder).loadIdent") {
		linfo := li.Info()
		rep := c.LookupFn("internal/mir/gen", "(*functionBuilder).reportUnsupported")
		invalid := c.lookupObj("internal/mir", "InvalidValue")
		if r.Anchor(rule, rep != nil && invalid != nil, "reportUnsupported / mir.InvalidValue") {
			g := c.CFG(li)
			nret := 0
			hits := mustFlow(g, FlowSpec{
				Gate: func(n ast.Node) bool { return nodeCalls(linfo, n, rep.Obj) != nil },
				Target: func(n ast.Node) bool {
					ret, ok := n.(*ast.ReturnStmt)
					if !ok || len(ret.Results) != 1 || objOf(linfo, ret.Results[0]) != invalid {
						return false
					}
					// `if ident == nil { return InvalidValue }` guards are not the unknown-symbol path
					nret++
					return true
				}})
			// allow the leading nil-guard return(s): only the last return must be gated
			gatedLast := true
			if res := trailingReturn(li); len(res) == 1 && objOf(linfo, res[0]) == invalid {
				for _, h := range hits {
					if h.Node == ast.Node(li.Decl.Body.List[len(li.Decl.Body.List)-1]) {
						gatedLast = false
					}
				}
			} else {
				gatedLast = false
			}
			backstop = gatedLast && nret >= 1
			r.Check(backstop, rule, li.Name(), "unknown identifier is reported before returning InvalidValue", c.pos(li.Decl.Pos()),
				"an identifier that has no storage/symbol reaches the end of loadIdent without a diagnostic: names the resolver does not visit would compile")
		}
	}
	u := buildASTUniverse(c)
	set := c.fieldsSet(pkgAST, pkgParser)
	var kinds []string
	for k := range u.fields {
		kinds = append(kinds, k)
	}
	sort.Strings(kinds)
	n := 0
	for _, k := range kinds {
		if _, built := u.kinds[k]; (!built && !u.conduit[k]) || k == "Module" {
			continue
		}
		for _, f := range u.fields[k] {
			pair := k + "." + f
			if !set[pair] {
				continue
			}
			if reason, ok := c03R2Exempt[pair]; ok {
				r.OK(rule, "resolver traversal", pair, "-", "exempt: "+reason)
				continue
			}
			n++
			pos := "-"
			if nk := u.kinds[k]; nk != nil {
				pos = c.pos(nk.Obj().Pos())
			}
			if visited[pair] {
				r.OK(rule, "resolver traversal", pair, pos, "resolved by the resolver")
				continue
			}
			r.Check(backstop, rule, "resolver traversal", pair, pos,
				fmt.Sprintf("the child %s of AST kind %s is never resolved and the MIR backstop does not hold: an undefined name in that position would be compiled", f, k))
		}
	}
	r.Floor(rule, n, 38, "AST (kind, child) pairs")
	r.Exhaust[rule] = true
}

var c03R2Exempt = map[string]string{
	"Field.Value": "see C03.R1: enum variant values are rejected outright",
}

func init() { props["C03"].Quick = append(props["C03"].Quick, c03R3a) }

// C03.R3a: expected-type obligations. A call checkExpr(ctx, mod, e, T) with a concrete expected type T
// (anything but types.TypeUnknown or the caller's own pass-through `expected` parameter) only *hints*
// T to inference; acceptance must then be decided by a comparison. Rule: on every path from such a
// call to the function's exit, one of the deciding calls occurs — checkTypeCompatibility[WithContext],
// checkAssignLike, checkConditionType, checkCastExpr — or an error is reported, or the path is the
// "type already unknown" / "checkFitness failed" branch.
func c03R3a(c *Ctx, r *Report) {
	const rule = "C03.R3a"
	r.Describe(rule, "every checkExpr(..., expectedType) site is followed on all paths by a type comparison or an error report")
	checkExpr := c.LookupFn(pkgTC, "checkExpr")
	fitness := c.LookupFn(pkgTC, "checkFitness")
	bagAdd := c.LookupFn("internal/diagnostics", "(*DiagnosticBag).Add")
	unknownVar := c.lookupObj(pkgTypes, "TypeUnknown")
	var deciders []*types.Func
	for _, n := range []string{"checkTypeCompatibility", "checkTypeCompatibilityWithContext", "checkAssignLike", "checkConditionType", "checkCastExpr", "analyzeStructCompatibility"} {
		if f := c.LookupFn(pkgTC, n); r.Anchor(rule, f != nil, "typechecker."+n) {
			deciders = append(deciders, f.Obj)
		}
	}
	if !r.Anchor(rule, checkExpr != nil && fitness != nil && bagAdd != nil && unknownVar != nil, "checkExpr / checkFitness / DiagnosticBag.Add / types.TypeUnknown") {
		return
	}
	nsites := 0
	for _, fn := range c.AllFns(pkgTC) {
		info := fn.Info()
		expectedParam := fn.ParamNamed("expected")
		isObligation := func(call *ast.CallExpr) bool {
			if !isCallTo(info, call, checkExpr.Obj) || len(call.Args) != 4 {
				return false
			}
			a := call.Args[3]
			if objOf(info, a) == unknownVar {
				return false
			}
			if expectedParam != nil && usesVar(info, a, expectedParam) {
				return false
			}
			return true
		}
		var sites []*ast.CallExpr
		for _, call := range callsIn(fn.Decl.Body, false) {
			if isObligation(call) {
				sites = append(sites, call)
			}
		}
		if len(sites) == 0 {
			continue
		}
		nsites += len(sites)
		g := c.CFG(fn)
		// variables assigned from checkFitness
		fitVars := map[types.Object]bool{}
		ast.Inspect(fn.Decl.Body, func(n ast.Node) bool {
			if as, ok := n.(*ast.AssignStmt); ok && len(as.Rhs) == 1 {
				if call, ok := as.Rhs[0].(*ast.CallExpr); ok && isCallTo(info, call, fitness.Obj) {
					for _, l := range as.Lhs {
						if id, ok := l.(*ast.Ident); ok {
							if o := info.Defs[id]; o != nil {
								fitVars[o] = true
							} else if o := info.Uses[id]; o != nil {
								fitVars[o] = true
							}
						}
					}
				}
			}
			return true
		})
		// an error already reported on every path to a node discharges any obligation created there
		reported := mustFlowStates(g, FlowSpec{Gate: func(n ast.Node) bool { return nodeCalls(info, n, bagAdd.Obj) != nil }})
		spec := FlowSpec{
			InitTrue: true,
			AtReturn: true,
			Kill: func(n ast.Node) bool {
				return nodeCallsPred(n, isObligation) != nil && !reported[n]
			},
			Gate: func(n ast.Node) bool {
				return nodeCallsPred(n, func(call *ast.CallExpr) bool {
					if isCallTo(info, call, bagAdd.Obj) {
						return true
					}
					for _, d := range deciders {
						if isCallTo(info, call, d) {
							return true
						}
					}
					return false
				}) != nil
			},
			EdgeGate: func(b *cfg.Block, succ int) bool {
				cond := condOf(b)
				if cond == nil {
					return false
				}
				return impliesDischarge(info, cond, succ == 0, unknownVar, fitVars)
			},
		}
		// A node can both kill and gate (checkConditionType(ctx, c, checkExpr(...))): the gate wins because
		// mustFlow applies Kill before Gate within a node.
		hits := mustFlow(g, spec)
		if len(hits) == 0 {
			for i, s := range sites {
				r.OK(rule, fn.Name(), fmt.Sprintf("checkExpr(%s, %s) #%d", exprStr(s.Args[2]), exprStr(s.Args[3]), i+1), c.pos(s.Pos()), "compared on all paths")
			}
			continue
		}
		// attribute the failure to the obligation sites of this function
		where := "end of function"
		if hits[0].Node != nil {
			where = c.pos(hits[0].Pos)
		}
		for i, s := range sites {
			// a site is at fault if removing it makes the hits disappear; approximate: re-run with only this site killing
			only := s
			spec1 := spec
			spec1.Kill = func(n ast.Node) bool {
				return nodeCallsPred(n, func(call *ast.CallExpr) bool { return call == only }) != nil && !reported[n]
			}
			h1 := mustFlow(g, spec1)
			key := fmt.Sprintf("checkExpr(%s, %s) #%d", exprStr(s.Args[2]), exprStr(s.Args[3]), i+1)
			if len(h1) == 0 {
				r.OK(rule, fn.Name(), key, c.pos(s.Pos()), "compared on all paths")
				continue
			}
			w := where
			if h1[0].Node != nil {
				w = c.pos(h1[0].Pos)
			}
			r.Fail(rule, fn.Name(), key, c.pos(s.Pos()),
				"the expression is checked with an expected type, but a path reaches "+w+" without comparing the resulting type with it (checkTypeCompatibility / checkAssignLike / checkConditionType) and without reporting: a mistyped expression in this position is accepted")
		}
	}
	r.Floor(rule, nsites, 18, "checkExpr sites with a concrete expected type")
}

func isUnknownTestPos(info *types.Info, e ast.Expr, unknownVar types.Object) (ast.Expr, bool) {
	call, ok := ast.Unparen(e).(*ast.CallExpr)
	if !ok || len(call.Args) != 1 {
		return nil, false
	}
	sel, ok := ast.Unparen(call.Fun).(*ast.SelectorExpr)
	if !ok || sel.Sel.Name != "Equals" {
		return nil, false
	}
	if objOf(info, call.Args[0]) != unknownVar {
		return nil, false
	}
	return sel.X, true
}

// impliesDischarge: taking the edge with the given polarity of cond implies that an operand type is
// already unknown (an error was reported earlier) or that checkFitness failed (it reported).
func impliesDischarge(info *types.Info, cond ast.Expr, polarity bool, unknownVar types.Object, fitVars map[types.Object]bool) bool {
	cond = ast.Unparen(cond)
	switch x := cond.(type) {
	case *ast.UnaryExpr:
		if x.Op == token.NOT {
			return impliesDischarge(info, x.X, !polarity, unknownVar, fitVars)
		}
	case *ast.BinaryExpr:
		switch x.Op {
		case token.LAND:
			if polarity {
				return impliesDischarge(info, x.X, true, unknownVar, fitVars) || impliesDischarge(info, x.Y, true, unknownVar, fitVars)
			}
			return impliesDischarge(info, x.X, false, unknownVar, fitVars) && impliesDischarge(info, x.Y, false, unknownVar, fitVars)
		case token.LOR:
			if polarity {
				return impliesDischarge(info, x.X, true, unknownVar, fitVars) && impliesDischarge(info, x.Y, true, unknownVar, fitVars)
			}
			return impliesDischarge(info, x.X, false, unknownVar, fitVars) || impliesDischarge(info, x.Y, false, unknownVar, fitVars)
		}
	case *ast.CallExpr:
		if _, ok := isUnknownTestPos(info, x, unknownVar); ok {
			return polarity
		}
	}
	// a nil SemType is "no type to compare against": `T == nil` (true edge) / `T != nil` (false edge)
	if b, ok := cond.(*ast.BinaryExpr); ok && (b.Op == token.EQL || b.Op == token.NEQ) {
		var other ast.Expr
		if info.Types[b.Y].IsNil() {
			other = b.X
		} else if info.Types[b.X].IsNil() {
			other = b.Y
		}
		if other != nil && isNamed(info.TypeOf(other), Mod+"/"+pkgTypes, "SemType") {
			return polarity == (b.Op == token.EQL)
		}
	}
	switch x := cond.(type) {
	case *ast.Ident:
		if fitVars[info.Uses[x]] {
			return !polarity
		}
	}
	return false
}

func init() { props["C03"].Quick = append(props["C03"].Quick, c03R3b, c03R3c, c03R4) }

// gateOnExits: every path from fn's entry to a return / fall-off-end passes a call to one of `gates`
// (or one of `alts`), unless an Error diagnostic was added on that path or the path is an
// "operand type unknown" branch.
func gateOnExits(c *Ctx, r *Report, rule string, fn *Fn, what string, msg string, gates []*types.Func, alts []*types.Func) {
	info := fn.Info()
	bagAdd := c.LookupFn("internal/diagnostics", "(*DiagnosticBag).Add")
	unknownVar := c.lookupObj(pkgTypes, "TypeUnknown")
	if bagAdd == nil || unknownVar == nil {
		r.Anchor(rule, false, "DiagnosticBag.Add / types.TypeUnknown")
		return
	}
	all := append(append([]*types.Func{bagAdd.Obj}, gates...), alts...)
	g := c.CFG(fn)
	hits := mustFlow(g, FlowSpec{
		AtReturn: true,
		Gate:     func(n ast.Node) bool { return nodeCalls(info, n, all...) != nil },
		EdgeGate: func(b *cfg.Block, succ int) bool {
			cond := condOf(b)
			return cond != nil && impliesDischarge(info, cond, succ == 0, unknownVar, nil)
		},
	})
	if len(hits) == 0 {
		r.OK(rule, fn.Name(), what, c.pos(fn.Decl.Pos()), "on every accepting path")
		return
	}
	pos := c.pos(fn.Decl.Body.Rbrace)
	if hits[0].Node != nil {
		pos = c.pos(hits[0].Pos)
	}
	r.Fail(rule, fn.Name(), what, pos, msg+" (exit at "+pos+" is reachable without it and without an error report)")
}

// C03.R3b: gate table for call checking.
func c03R3b(c *Ctx, r *Report) {
	const rule = "C03.R3b"
	r.Describe(rule, "call checking gates: argument count, argument types and result handling are validated on every accepting path")
	get := func(n string) *Fn { return c.LookupFn(pkgTC, n) }
	call, cnt, typ, res, builtin := get("checkCallExpr"), get("validateCallArgumentCount"), get("validateCallArgumentTypes"), get("validateResultTypeHandling"), get("checkBuiltinCallExpr")
	if !r.Anchor(rule, call != nil && cnt != nil && typ != nil && res != nil && builtin != nil, "checkCallExpr / validateCallArgument{Count,Types} / validateResultTypeHandling / checkBuiltinCallExpr") {
		return
	}
	gateOnExits(c, r, rule, call, "validateCallArgumentCount on all exits", "a call can be accepted without its argument count being compared with the callee's parameter list", []*types.Func{cnt.Obj}, []*types.Func{builtin.Obj})
	gateOnExits(c, r, rule, call, "validateCallArgumentTypes on all exits", "a call can be accepted without its argument types being checked", []*types.Func{typ.Obj}, []*types.Func{builtin.Obj})
	gateOnExits(c, r, rule, typ, "validateResultTypeHandling on all exits", "a call of a result-returning function can be accepted without the 'unhandled result' check", []*types.Func{res.Obj}, nil)
	// validateResultTypeHandling reports UncaughtError under `isResult && expr.Catch == nil`
	unc := c.LookupFn("internal/diagnostics", "UncaughtError")
	if r.Anchor(rule, unc != nil, "diagnostics.UncaughtError") {
		ok := false
		walkWithStack(res.Decl.Body, func(n ast.Node, stack []ast.Node) bool {
			cl, isCall := n.(*ast.CallExpr)
			if !isCall || !isCallTo(res.Info(), cl, unc.Obj) {
				return true
			}
			nilTest := false
			for _, a := range stack {
				if ifs, isIf := a.(*ast.IfStmt); isIf && containsNode(ifs.Body, cl) {
					if b, isEq := isBinOp(ifs.Cond, token.EQL); isEq && res.Info().Types[b.Y].IsNil() && strings.HasSuffix(exprStr(b.X), ".Catch") {
						nilTest = true
					}
				}
			}
			ok = ok || nilTest
			return true
		})
		r.Check(ok, rule, res.Name(), "UncaughtError reported when Catch == nil", c.pos(res.Decl.Pos()), "the unhandled-result diagnostic is no longer reported under `expr.Catch == nil`")
	}
	// validateCallArgumentCount compares len(args) with len(params): != for fixed arity, < for variadic
	{
		info := cnt.Info()
		var ops []string
		ast.Inspect(cnt.Decl.Body, func(n ast.Node) bool {
			if ifs, ok := n.(*ast.IfStmt); ok {
				if b, ok := ast.Unparen(ifs.Cond).(*ast.BinaryExpr); ok && nodeCallsPred(ifs.Body, func(cl *ast.CallExpr) bool {
					f := callee(info, cl)
					return f != nil && strings.HasPrefix(f.Name(), "WrongArgumentCount")
				}) != nil {
					ops = append(ops, b.Op.String())
				}
			}
			return true
		})
		sort.Strings(ops)
		r.Check(strings.Join(ops, ",") == "!=,<", rule, cnt.Name(), "arity comparisons (!= fixed, < variadic)", c.pos(cnt.Decl.Pos()),
			"argument-count errors must be reported when argCount != paramCount (fixed arity) and argCount < required (variadic); found comparisons "+strings.Join(ops, ","))
	}
	// CheckModule visits every top-level node
	if cm := c.LookupFn(pkgTC, "CheckModule"); r.Anchor(rule, cm != nil, "CheckModule") {
		checkNode := get("checkNode")
		ok := false
		ast.Inspect(cm.Decl.Body, func(n ast.Node) bool {
			if rs, isRange := n.(*ast.RangeStmt); isRange && strings.HasSuffix(exprStr(rs.X), ".AST.Nodes") && checkNode != nil {
				if v, isID := rs.Value.(*ast.Ident); isID {
					for _, cl := range callsIn(rs.Body, false) {
						if isCallTo(cm.Info(), cl, checkNode.Obj) && len(cl.Args) == 3 && exprStr(cl.Args[2]) == v.Name {
							ok = true
						}
					}
				}
			}
			return true
		})
		r.Check(ok, rule, cm.Name(), "checkNode on every top-level node", c.pos(cm.Decl.Pos()), "CheckModule no longer type-checks every node of the module")
	}
}

// C03.R3c: every rule class of the catalogue has a reporting site that the type checker / resolver /
// collector can reach from its entry point.
func c03R3c(c *Ctx, r *Report) {
	const rule = "C03.R3c"
	r.Describe(rule, "each rule class of the statement has a reachable Error-reporting site (diagnostic constructor / code used)")
	type class struct {
		name   string
		pkgRel string
		entry  string
		// one of: constructor function in package diagnostics, or error-code constant used in WithCode
		ctor string
		code string
	}
	classes := []class{
		{"wrong argument count", pkgTC, "CheckModule", "WrongArgumentCount", ""},
		{"wrong argument count (variadic)", pkgTC, "CheckModule", "WrongArgumentCountVariadic", ""},
		{"argument type", pkgTC, "CheckModule", "ArgumentTypeMismatch", ""},
		{"calling a non-function", pkgTC, "CheckModule", "NotCallable", ""},
		{"unhandled result", pkgTC, "CheckModule", "UncaughtError", ""},
		{"catch on non-result", pkgTC, "CheckModule", "InvalidCatch", ""},
		{"`!` return from non-result function", pkgTC, "CheckModule", "InvalidErrorReturn", ""},
		{"type mismatch (assignment/return/operands)", pkgTC, "CheckModule", "", "ErrTypeMismatch"},
		{"unknown struct field", pkgTC, "CheckModule", "", "ErrUnknownField"},
		{"missing struct field", pkgTC, "CheckModule", "", "ErrMissingField"},
		{"invalid assignment", pkgTC, "CheckModule", "", "ErrInvalidAssignment"},
	}
	dp := c.ByPath[Mod+"/internal/diagnostics"]
	if !r.Anchor(rule, dp != nil, "package diagnostics") {
		return
	}
	for _, cl := range classes {
		entry := c.LookupFn(cl.pkgRel, cl.entry)
		if !r.Anchor(rule, entry != nil, cl.pkgRel+"."+cl.entry) {
			continue
		}
		var target types.Object
		if cl.ctor != "" {
			target = dp.Types.Scope().Lookup(cl.ctor)
		} else {
			target = dp.Types.Scope().Lookup(cl.code)
		}
		if !r.Anchor(rule, target != nil, "diagnostics."+cl.ctor+cl.code) {
			continue
		}
		reach := c.intraReach(cl.pkgRel, entry)
		n := 0
		for fobj := range reach {
			fn := c.FnOf(fobj)
			if fn == nil {
				continue
			}
			ast.Inspect(fn.Decl.Body, func(nd ast.Node) bool {
				switch x := nd.(type) {
				case *ast.CallExpr:
					if cl.ctor != "" {
						if f := callee(fn.Info(), x); f != nil && types.Object(f) == target {
							n++
						}
					}
				case *ast.SelectorExpr:
					if cl.code != "" && fn.Info().Uses[x.Sel] == target {
						n++
					}
				}
				return true
			})
		}
		r.Check(n > 0, rule, relPkgName(cl.pkgRel), "rule class: "+cl.name, "-", fmt.Sprintf("no reporting site for %q (diagnostics.%s%s) is reachable from %s any more", cl.name, cl.ctor, cl.code, cl.entry))
	}
	// every diagnostics constructor used above creates Error severity
	newErr := c.LookupFn("internal/diagnostics", "NewError")
	sevErr, _ := c.lookupObj("internal/diagnostics", "Error").(*types.Const)
	if r.Anchor(rule, newErr != nil && sevErr != nil, "diagnostics.NewError / Error") {
		ok := false
		ast.Inspect(newErr.Decl.Body, func(nd ast.Node) bool {
			if kv, isKV := nd.(*ast.KeyValueExpr); isKV {
				if id, isID := kv.Key.(*ast.Ident); isID && id.Name == "Severity" && constObj(newErr.Info(), kv.Value) == sevErr {
					ok = true
				}
			}
			return true
		})
		r.Check(ok, rule, newErr.Name(), "Severity: Error", c.pos(newErr.Decl.Pos()), "NewError no longer creates an Error-severity diagnostic")
		for _, ctor := range []string{"WrongArgumentCount", "WrongArgumentCountVariadic", "ArgumentTypeMismatch", "NotCallable", "UncaughtError", "InvalidCatch", "InvalidErrorReturn"} {
			f := c.LookupFn("internal/diagnostics", ctor)
			if !r.Anchor(rule, f != nil, "diagnostics."+ctor) {
				continue
			}
			r.Check(nodeCalls(f.Info(), f.Decl.Body, newErr.Obj) != nil, rule, f.Name(), "built with NewError", c.pos(f.Decl.Pos()), ctor+" is not an Error-severity diagnostic any more (exit status and code-generation gates count errors only)")
		}
	}
	// HasErrors counts exactly Error severity: Add increments errorCount under `case Error`
	if add := c.LookupFn("internal/diagnostics", "(*DiagnosticBag).Add"); r.Anchor(rule, add != nil, "DiagnosticBag.Add") {
		ok := false
		ast.Inspect(add.Decl.Body, func(nd ast.Node) bool {
			if cc, isCC := nd.(*ast.CaseClause); isCC && len(cc.List) == 1 && constObj(add.Info(), cc.List[0]) == sevErr {
				for _, s := range cc.Body {
					if inc, isInc := s.(*ast.IncDecStmt); isInc && inc.Tok == token.INC && strings.HasSuffix(exprStr(inc.X), "errorCount") {
						ok = true
					}
				}
			}
			return true
		})
		r.Check(ok, rule, add.Name(), "errorCount++ for Severity Error", c.pos(add.Decl.Pos()), "adding an Error diagnostic no longer increments the error count that HasErrors reads")
	}
}

func relPkgName(rel string) string { return strings.TrimPrefix(rel, "internal/") }

// intraReach: functions of package pkgRel reachable from entry through static calls inside the package.
func (c *Ctx) intraReach(pkgRel string, entry *Fn) map[*types.Func]bool {
	key := "intra:" + pkgRel + ":" + entry.Obj.Name()
	if v, ok := c.cache[key]; ok {
		return v.(map[*types.Func]bool)
	}
	seen := map[*types.Func]bool{entry.Obj: true}
	work := []*Fn{entry}
	for len(work) > 0 {
		fn := work[len(work)-1]
		work = work[:len(work)-1]
		for _, call := range callsIn(fn.Decl.Body, true) {
			f := callee(fn.Info(), call)
			if f == nil || seen[f] {
				continue
			}
			if cal := c.FnOf(f); cal != nil && cal.Pkg == fn.Pkg {
				seen[f] = true
				work = append(work, cal)
			}
		}
		// function values referenced (not called) also count
		ast.Inspect(fn.Decl.Body, func(n ast.Node) bool {
			if id, ok := n.(*ast.Ident); ok {
				if f, ok := fn.Info().Uses[id].(*types.Func); ok && !seen[f] {
					if cal := c.FnOf(f); cal != nil && cal.Pkg == fn.Pkg {
						seen[f] = true
						work = append(work, cal)
					}
				}
			}
			return true
		})
	}
	c.cache[key] = seen
	return seen
}

// C03.R4: errors gate code generation.
func c03R4(c *Ctx, r *Report) {
	const rule = "C03.R4"
	r.Describe(rule, "Pipeline.Run: MIR generation and both code generators run only on the no-errors branch of a HasErrors() test taken after the last preceding phase")
	run := c.LookupFn(pkgPipe, "(*Pipeline).Run")
	hasErr := c.LookupFn(pkgCtx, "(*CompilerContext).HasErrors")
	if !r.Anchor(rule, run != nil && hasErr != nil, "Pipeline.Run / CompilerContext.HasErrors") {
		return
	}
	info := run.Info()
	g := c.CFG(run)
	isPhase := func(call *ast.CallExpr) string {
		f := callee(info, call)
		if f != nil && strings.HasPrefix(f.Name(), "run") && isMethod(f, Mod+"/"+pkgPipe, "Pipeline", f.Name()) {
			return f.Name()
		}
		return ""
	}
	guarded := map[string]bool{"runMIRGenerationPhase": true, "runQBECodegenPhase": true, "runWasmCodegenPhase": true}
	found := map[string]bool{}
	hits := mustFlow(g, FlowSpec{
		// a phase that ran may have added errors: the "known error-free" fact is destroyed after it
		Kill: func(n ast.Node) bool {
			return nodeCallsPred(n, func(cl *ast.CallExpr) bool { return isPhase(cl) != "" }) != nil
		},
		EdgeGate: func(b *cfg.Block, succ int) bool {
			cond := condOf(b)
			if cond == nil {
				return false
			}
			neg := false
			e := ast.Unparen(cond)
			if u, ok := e.(*ast.UnaryExpr); ok && u.Op == token.NOT {
				neg, e = true, ast.Unparen(u.X)
			}
			cl, ok := e.(*ast.CallExpr)
			if !ok || !isCallTo(info, cl, hasErr.Obj) {
				return false
			}
			return (!neg && succ == 1) || (neg && succ == 0)
		},
		Target: func(n ast.Node) bool {
			return nodeCallsPred(n, func(cl *ast.CallExpr) bool {
				if nm := isPhase(cl); guarded[nm] {
					found[nm] = true
					return true
				}
				return false
			}) != nil
		},
	})
	// Kill applies before Target inside one node in mustFlow's scan order? Target is evaluated first (see mustFlow), so a
	// guarded phase call is judged with the state before its own call.
	for nm := range guarded {
		r.Check(found[nm], rule, run.Name(), "calls "+nm, c.pos(run.Decl.Pos()), "anchor: Run no longer calls "+nm)
	}
	if len(hits) == 0 {
		r.OK(rule, run.Name(), "HasErrors() gate before MIR generation and code generation", c.pos(run.Decl.Pos()), "every path")
	}
	for _, h := range hits {
		what := "code-generating phase"
		if cl := nodeCallsPred(h.Node, func(cl *ast.CallExpr) bool { return guarded[isPhase(cl)] }); cl != nil {
			what = isPhase(cl)
		}
		r.Fail(rule, run.Name(), "ungated "+what, c.pos(h.Pos), "a code-generating phase can start although an earlier phase reported errors (no HasErrors() test between the previous phase and this one): an ill-typed program could produce an executable")
	}
	// the error branch must leave Run: `if HasErrors() { ...; return <non-nil> }`
	nGates := 0
	ast.Inspect(run.Decl.Body, func(n ast.Node) bool {
		ifs, ok := n.(*ast.IfStmt)
		if !ok {
			return true
		}
		cl, ok := ast.Unparen(ifs.Cond).(*ast.CallExpr)
		if !ok || !isCallTo(info, cl, hasErr.Obj) {
			return true
		}
		nGates++
		okRet := false
		if len(ifs.Body.List) > 0 {
			if ret, isRet := ifs.Body.List[len(ifs.Body.List)-1].(*ast.ReturnStmt); isRet && len(ret.Results) == 1 && !info.Types[ret.Results[0]].IsNil() {
				okRet = true
			}
		}
		r.Check(okRet, rule, run.Name(), fmt.Sprintf("HasErrors gate #%d returns an error", nGates), c.pos(ifs.Pos()), "the errors-present branch must return a non-nil error")
		return true
	})
	r.Floor(rule, nGates, 2, "HasErrors gates in Run")
}

func init() { props["C03"].Quick = append(props["C03"].Quick, c03R3d) }

// C03.R3d: two count/presence rules of the catalogue that are not type comparisons.
func c03R3d(c *Ctx, r *Report) {
	const rule = "C03.R3d"
	r.Describe(rule, "missing return value and too many array initialisers are reported")
	bagAdd := c.LookupFn("internal/diagnostics", "(*DiagnosticBag).Add")
	checkNode := c.LookupFn(pkgTC, "checkNode")
	val := c.LookupFn(pkgTC, "validateArrayLiteral")
	if !r.Anchor(rule, bagAdd != nil && checkNode != nil && val != nil, "DiagnosticBag.Add / checkNode / validateArrayLiteral") {
		return
	}
	// (a) case *ast.ReturnStmt: `if n.Result != nil {...} else <reports>`
	info := checkNode.Info()
	retT := c.lookupType(pkgAST, "ReturnStmt")
	okRet := false
	var pos token.Pos = checkNode.Decl.Pos()
	for _, ts := range typeSwitchesOn(info, checkNode.Decl.Body, checkNode.ParamNamed("node")) {
		for _, cc := range caseClauses(ts.Body) {
			isRet := false
			for _, t := range caseTypes(info, cc) {
				if n := namedOf(t); n != nil && retT != nil && n.Obj() == retT {
					isRet = true
				}
			}
			if !isRet {
				continue
			}
			pos = cc.Pos()
			for _, s := range cc.Body {
				ifs, ok := s.(*ast.IfStmt)
				if !ok {
					continue
				}
				b, isNeq := isBinOp(ifs.Cond, token.NEQ)
				if !isNeq || !info.Types[b.Y].IsNil() || !strings.HasSuffix(exprStr(b.X), ".Result") || ifs.Else == nil {
					continue
				}
				if nodeCalls(info, ifs.Else, bagAdd.Obj) != nil {
					okRet = true
				}
			}
		}
	}
	r.Check(okRet, rule, checkNode.Name(), "return without value reports when a value is required", c.pos(pos),
		"the ReturnStmt case has no reporting branch for `Result == nil`: `return;` in a value-returning function would be accepted")
	// the helper deciding "a value is required" treats only void/unknown (and result-of-void) as not requiring one
	if h := c.LookupFn(pkgTC, "missingReturnValueType"); r.Anchor(rule, h != nil, "missingReturnValueType") {
		voidVar := c.lookupObj(pkgTypes, "TypeVoid")
		unknownVar := c.lookupObj(pkgTypes, "TypeUnknown")
		bad := false
		n := 0
		ast.Inspect(h.Decl.Body, func(nd ast.Node) bool {
			call, ok := nd.(*ast.CallExpr)
			if !ok {
				return true
			}
			if sel, ok := ast.Unparen(call.Fun).(*ast.SelectorExpr); ok && sel.Sel.Name == "Equals" && len(call.Args) == 1 {
				n++
				o := objOf(h.Info(), call.Args[0])
				if o != voidVar && o != unknownVar {
					bad = true
				}
			}
			return true
		})
		r.Check(!bad && n >= 2, rule, h.Name(), "only void/unknown exempt a bare return", c.pos(h.Decl.Pos()), "missingReturnValueType exempts a type other than void/unknown from the missing-return-value error")
	}
	// (b) validateArrayLiteral: len(lit.Elts) > arrayType.Length reports
	vinfo := val.Info()
	okArr := false
	ast.Inspect(val.Decl.Body, func(nd ast.Node) bool {
		ifs, ok := nd.(*ast.IfStmt)
		if !ok || nodeCalls(vinfo, ifs.Body, bagAdd.Obj) == nil {
			return true
		}
		for _, cj := range conjuncts(ifs.Cond) {
			b, isCmp := isBinOp(cj, token.GTR, token.LSS, token.NEQ)
			if !isCmp {
				continue
			}
			xs, ys := exprStr(b.X), exprStr(b.Y)
			lenElts := func(s string) bool { return strings.HasPrefix(s, "len(") && strings.HasSuffix(s, ".Elts)") }
			length := func(s string) bool { return strings.HasSuffix(s, ".Length") }
			if (b.Op == token.GTR && lenElts(xs) && length(ys)) || (b.Op == token.LSS && length(xs) && lenElts(ys)) || (b.Op == token.NEQ && (lenElts(xs) && length(ys) || lenElts(ys) && length(xs))) {
				okArr = true
			}
		}
		return true
	})
	r.Check(okArr, rule, val.Name(), "len(Elts) > Length reports", c.pos(val.Decl.Pos()), "an array literal with more elements than the fixed array type holds is not reported")
}
