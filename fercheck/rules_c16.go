package main

import (
	"fmt"
	"go/constant"
	"regexp"
	"sort"
	"strings"
)

func init() {
	register("C16", &propSpec{
		Explanation: "Structural necessary conditions of exact 128/256-bit arithmetic (clang AST of runtime/core/bigint.c, no execution): (R1) every runtime helper name the compiler can generate for i128/u128/i256/u256 operators, comparisons, conversions and text conversion is defined in bigint.c with the arity the call uses, the operator-to-helper mapping is the expected one, and each _ptr wrapper calls its by-value function; (R2) the 128- and 256-bit implementations of every operation are clones up to the width, and signed/unsigned siblings that must share a shape do; (R3) in limb loops every wrapping limb-typed addition/subtraction is tested for overflow on its own result and no two are chained in one expression (carry-chain accounting); (R4) signed div/mod/mul take magnitudes, use the unsigned core and fix the sign exactly (quotient: signs differ; remainder: dividend negative); (R5) no implicit narrowing of a limb to a 32-bit parameter; (C10.R4) constants wider than 64 bits are materialised through the decimal-string helper unless the value is guarded to fit 64 bits. Does not decide the multiplication, long-division, pow and decimal-conversion algorithms.",
		Quick:       []ruleFn{c16R1, c16R2, c16R3, c16R4, c16R5, c10R4},
	})
}

var largeInts = []string{"i128", "u128", "i256", "u256"}

func c16R1(c *Ctx, r *Report) {
	const rule = "C16.R1"
	r.Describe(rule, "operator -> runtime helper registry (mir/gen) vs definitions in bigint.c: existence, arity, mapping, wrapper delegation")
	cf := cLoad(c, r, rule, "runtime/core/bigint.c")
	lb := c.LookupFn(pkgMIRGen, "largeBinaryFunc")
	if cf == nil || !r.Anchor(rule, lb != nil, "mir/gen.largeBinaryFunc") {
		return
	}
	toks := loadTokens(c)
	pe := newPEval(c)
	wantOp := map[string]string{"PLUS_TOKEN": "add", "MINUS_TOKEN": "sub", "MUL_TOKEN": "mul", "DIV_TOKEN": "div", "MOD_TOKEN": "mod", "EXP_TOKEN": "pow",
		"BIT_AND_TOKEN": "and", "BIT_OR_TOKEN": "or", "BIT_XOR_TOKEN": "xor"}
	checkDef := func(name string, nparams int, construct string) {
		fn := cf.Funcs[name]
		if fn == nil {
			r.Fail(rule, "bigint.c", construct+" -> "+name, "-", "the compiler can emit a call to "+name+" but runtime/core/bigint.c does not define it: the program fails to link (a core operation on a large integer is rejected)")
			return
		}
		r.Check(len(fn.Params()) == nparams, rule, "bigint.c:"+name, construct+" arity", c.cpos(cf, fn), fmt.Sprintf("%s takes %d parameters, the emitted call passes %d", name, len(fn.Params()), nparams))
		if strings.HasSuffix(name, "_ptr") {
			base := strings.TrimSuffix(name, "_ptr")
			calls := false
			fn.Walk(func(x *CNode) bool {
				if x.Kind == "CallExpr" && x.Callee() == base {
					calls = true
				}
				return true
			})
			r.Check(calls, rule, "bigint.c:"+name, "wrapper calls "+base, c.cpos(cf, fn), "the pointer wrapper does not delegate to the by-value function of the same operation and type")
		}
	}
	for _, tn := range largeInts {
		for _, tok := range sortedKeys(wantOp) {
			tv, ok := toks.byName[tok]
			if !r.Anchor(rule, ok, "tokens."+tok) {
				continue
			}
			res, err := pe.Call(lb, []Val{tv, kstr(tn)})
			construct := fmt.Sprintf("(%s, %s)", tok, tn)
			if err != nil {
				r.Fail(rule, lb.Name(), construct, c.pos(lb.Decl.Pos()), "undecidable: "+err.Error())
				continue
			}
			name, _ := strOf(res[0])
			okv, _ := res[1].(constant.Value)
			want := "ferret_" + tn + "_" + wantOp[tok] + "_ptr"
			pos := c.pos(lb.Decl.Pos())
			if pe.LastReturn != nil {
				pos = c.pos(pe.LastReturn.Pos())
			}
			if r.Check(boolVal(okv) && name == want, rule, lb.Name(), construct+" -> "+want, pos, fmt.Sprintf("operator %s on %s is lowered to %q (ok=%v), expected %q", tok, tn, name, boolVal(okv), want)) {
				checkDef(name, 3, construct)
			}
		}
		for _, cmp := range []string{"eq", "lt", "gt"} {
			checkDef("ferret_"+tn+"_"+cmp+"_ptr", 2, "compare "+cmp+" "+tn)
		}
		small := map[bool]string{true: "i64", false: "u64"}[tn[0] == 'i']
		checkDef("ferret_"+tn+"_from_"+small+"_ptr", 2, "widen to "+tn)
		checkDef("ferret_"+tn+"_to_"+small+"_ptr", 1, "narrow from "+tn)
		checkDef("ferret_"+tn+"_from_string_ptr", 2, "constant "+tn)
		checkDef("ferret_"+tn+"_to_string_ptr", 1, "print "+tn)
	}
	// compare lowering uses exactly eq/lt/gt helper suffixes built as "ferret_"+typeName+"_"+op+"_ptr"
	cmpFn := c.LookupFn(pkgMIRGen, "(*functionBuilder).emitLargeCompare")
	if r.Anchor(rule, cmpFn != nil, "mir/gen.emitLargeCompare") {
		ops := map[string]bool{}
		for _, call := range callsIn(cmpFn.Decl.Body, false) {
			if f := callee(cmpFn.Info(), call); f != nil && f.Name() == "emitLargeCompareCall" && len(call.Args) >= 2 {
				if v := constOf(cmpFn.Info(), call.Args[1]); v != nil {
					ops[constant.StringVal(v)] = true
				}
			}
		}
		var got []string
		for k := range ops {
			got = append(got, k)
		}
		sort.Strings(got)
		r.Check(strings.Join(got, ",") == "eq,gt,lt", rule, cmpFn.Name(), "comparisons built from eq/lt/gt", c.pos(cmpFn.Decl.Pos()), fmt.Sprintf("large comparisons call helpers %v; bigint.c provides eq, lt, gt", got))
	}
	r.Exhaust[rule] = true
}

var widthRe = regexp.MustCompile(`128|256`)

func cNorm(s string) string {
	s = widthRe.ReplaceAllString(s, "N")
	return s
}

// cShape renders a function body as a normalised string (widths abstracted).
func cShape(fn *CNode, extra func(string) string) string {
	var sb strings.Builder
	var walk func(n *CNode, depth int)
	walk = func(n *CNode, depth int) {
		switch n.Kind {
		case "CompoundStmt", "IfStmt", "ForStmt", "WhileStmt", "DeclStmt", "ReturnStmt", "DoStmt":
			sb.WriteString(n.Kind + "{")
			for _, in := range n.Inner {
				walk(in, depth+1)
			}
			sb.WriteString("}")
		case "VarDecl":
			sb.WriteString("var " + n.Name + ":" + n.Type)
			for _, in := range n.Inner {
				sb.WriteString("=" + in.Src())
			}
			sb.WriteString(";")
		default:
			sb.WriteString(n.Src() + ";")
		}
	}
	if b := fn.Body(); b != nil {
		walk(b, 0)
	}
	s := cNorm(sb.String())
	if extra != nil {
		s = extra(s)
	}
	return s
}

func c16R2(c *Ctx, r *Report) {
	const rule = "C16.R2"
	r.Describe(rule, "clone-pair consistency: ferret_<t>128_<op> vs ferret_<t>256_<op>, and signed/unsigned siblings for add/sub/and/or/xor/not/shl/eq")
	cf := cLoad(c, r, rule, "runtime/core/bigint.c")
	if cf == nil {
		return
	}
	ops := []string{"add", "sub", "mul", "div", "mod", "eq", "lt", "gt", "pow", "and", "or", "xor", "not", "shl", "shr", "to_string", "from_string"}
	n := 0
	for _, sign := range []string{"i", "u"} {
		for _, op := range ops {
			a, b := cf.Funcs["ferret_"+sign+"128_"+op], cf.Funcs["ferret_"+sign+"256_"+op]
			if a == nil || b == nil {
				if a != nil || b != nil {
					r.Fail(rule, "bigint.c", "pair "+sign+"128/"+sign+"256 "+op, "-", "only one width implements this operation")
				}
				continue
			}
			n++
			sa, sb := cShape(a, nil), cShape(b, nil)
			r.Check(sa == sb, rule, "bigint.c", "ferret_"+sign+"128_"+op+" ~ ferret_"+sign+"256_"+op, c.cpos(cf, b),
				"the 128- and 256-bit implementations differ beyond the width: "+firstDiff(sa, sb))
		}
	}
	// signed/unsigned siblings with identical shape (two's complement: same bit operations)
	for _, w := range []string{"128", "256"} {
		for _, op := range []string{"add", "sub", "and", "or", "xor", "not", "shl", "eq"} {
			a, b := cf.Funcs["ferret_i"+w+"_"+op], cf.Funcs["ferret_u"+w+"_"+op]
			if a == nil || b == nil {
				continue
			}
			n++
			norm := func(s string) string {
				s = strings.ReplaceAll(s, "ferret_iN", "ferret_xN")
				return strings.ReplaceAll(s, "ferret_uN", "ferret_xN")
			}
			sa, sb := cShape(a, norm), cShape(b, norm)
			r.Check(sa == sb, rule, "bigint.c", "ferret_i"+w+"_"+op+" ~ ferret_u"+w+"_"+op, c.cpos(cf, b),
				"signed and unsigned variants of a sign-agnostic operation differ: "+firstDiff(sa, sb))
		}
	}
	r.Floor(rule, n, 40, "clone pairs compared")
}

func firstDiff(a, b string) string {
	i := 0
	for i < len(a) && i < len(b) && a[i] == b[i] {
		i++
	}
	lo := max(0, i-40)
	return fmt.Sprintf("...%s | vs | ...%s", a[lo:min(len(a), i+60)], b[lo:min(len(b), i+60)])
}

func isLimbType(t string) bool {
	switch t {
	case "ferret_limb_t", "uint64_t", "unsigned long", "uint32_t", "unsigned int", "const ferret_limb_t":
		return true
	}
	return false
}

func c16R3(c *Ctx, r *Report) {
	const rule = "C16.R3"
	r.Describe(rule, "carry-chain accounting: in limb loops with a loop-carried carry/borrow, each wrapping limb-typed +/- has its own overflow test and none is nested in another")
	cf := cLoad(c, r, rule, "runtime/core/bigint.c")
	if cf == nil {
		return
	}
	n := 0
	for _, name := range cf.Order {
		fn := cf.Funcs[name]
		// loops with a loop-carried limb-typed variable named carry/borrow
		fn.Walk(func(loop *CNode) bool {
			if loop.Kind != "ForStmt" && loop.Kind != "WhileStmt" {
				return true
			}
			// carried variables: declared outside the loop body, assigned inside, limb-typed
			carried := map[string]bool{}
			fn.Walk(func(v *CNode) bool {
				if v.Kind == "VarDecl" && isLimbType(v.Type) && (strings.Contains(v.Name, "carry") || strings.Contains(v.Name, "borrow")) {
					carried[v.Name] = true
				}
				return true
			})
			if len(carried) == 0 {
				return true
			}
			// collect comparisons in the loop
			var cmps []*CNode
			loop.Walk(func(x *CNode) bool {
				if x.Kind == "BinaryOperator" && (x.Opcode == "<" || x.Opcode == ">") {
					cmps = append(cmps, x)
				}
				return true
			})
			loop.Walk(func(x *CNode) bool {
				if x.Kind != "BinaryOperator" || (x.Opcode != "+" && x.Opcode != "-") || !isLimbType(x.Type) || len(x.Inner) != 2 {
					return true
				}
				// operands as limb expressions
				l, rr := x.Inner[0].strip(), x.Inner[1].strip()
				// loop counters (i + j) are int-typed: excluded by isLimbType
				n++
				construct := fmt.Sprintf("%s: %s", name, x.Src())
				// (i) nesting
				nested := false
				for _, o := range []*CNode{l, rr} {
					for o != nil && o.Kind == "CStyleCastExpr" && len(o.Inner) == 1 {
						o = o.Inner[0].strip()
					}
					if o != nil && o.Kind == "BinaryOperator" && (o.Opcode == "+" || o.Opcode == "-") && isLimbType(o.Type) {
						nested = true
					}
				}
				if nested {
					r.Fail(rule, "bigint.c:"+name, "chained wrapping op "+x.Src(), c.cpos(cf, x), "two wrapping limb additions/subtractions are chained in one expression: the overflow of the inner one cannot be observed, so a carry/borrow is lost when both wrap")
					return true
				}
				involves := carried[l.Src()] || carried[rr.Src()]
				if !involves {
					return true
				}
				// (ii) own overflow test: the result (variable it is assigned to, or the expression) compared with an operand
				resName := ""
				if p := x.Parent; p != nil {
					q := p
					for q != nil && (q.Kind == "ParenExpr" || q.Kind == "ImplicitCastExpr" || q.Kind == "CStyleCastExpr") {
						q = q.Parent
					}
					if q != nil && q.Kind == "VarDecl" {
						resName = q.Name
					}
					if q != nil && q.Kind == "BinaryOperator" && q.Opcode == "=" {
						resName = q.Inner[0].Src()
					}
				}
				tested := false
				for _, cm := range cmps {
					a, b := cm.Inner[0].Src(), cm.Inner[1].Src()
					if x.Opcode == "+" {
						// sum < operand   (either order with >)
						for _, o := range []string{l.Src(), rr.Src()} {
							if resName != "" && ((cm.Opcode == "<" && a == resName && b == o) || (cm.Opcode == ">" && b == resName && a == o)) {
								tested = true
							}
						}
					} else {
						// minuend < subtrahend
						if (cm.Opcode == "<" && a == l.Src() && b == rr.Src()) || (cm.Opcode == ">" && b == l.Src() && a == rr.Src()) {
							tested = true
						}
					}
				}
				r.Check(tested, rule, "bigint.c:"+name, "overflow test for "+x.Src(), c.cpos(cf, x),
					"a limb-typed "+x.Opcode+" that includes the incoming carry/borrow can wrap, and its result is not compared with its operand: the carry/borrow out of this limb is lost for some operand values ("+construct+")")
				return true
			})
			return false // do not re-enter nested loops separately
		})
	}
	r.Floor(rule, n, 3, "limb-typed +/- in carry loops")
}

func c16R4(c *Ctx, r *Report) {
	const rule = "C16.R4"
	r.Describe(rule, "signed div/mod: magnitudes via ferret_abs_limbs, unsigned core, quotient negated iff signs differ, remainder negated iff dividend negative")
	cf := cLoad(c, r, rule, "runtime/core/bigint.c")
	if cf == nil {
		return
	}
	for _, w := range []string{"128", "256"} {
		for _, op := range []string{"div", "mod"} {
			name := "ferret_i" + w + "_" + op
			fn := cf.Funcs[name]
			if !r.Anchor(rule, fn != nil, "bigint.c:"+name) {
				continue
			}
			abs, core := 0, false
			var negCond string
			var src string
			fn.Walk(func(x *CNode) bool {
				if x.Kind == "CallExpr" {
					switch x.Callee() {
					case "ferret_abs_limbs":
						abs++
					case "ferret_div_mod_u_limbs":
						core = true
					case "ferret_copy_limbs":
						if len(x.Args()) >= 2 {
							src = x.Args()[1].Src()
						}
					}
				}
				if x.Kind == "IfStmt" && len(x.Inner) >= 2 {
					neg := false
					x.Inner[1].Walk(func(y *CNode) bool {
						if y.Kind == "CallExpr" && y.Callee() == "ferret_negate_limbs" {
							neg = true
						}
						return true
					})
					if neg {
						negCond = x.Inner[0].Src()
					}
				}
				return true
			})
			r.Check(abs == 2 && core, rule, "bigint.c:"+name, "magnitudes + unsigned core", c.cpos(cf, fn), "signed "+op+" does not take both magnitudes and divide them with the unsigned core")
			if op == "div" {
				r.Check(negCond == "(neg_a != neg_b)" && strings.HasPrefix(src, "quot"), rule, "bigint.c:"+name, "quotient negated iff signs differ", c.cpos(cf, fn), "truncating division: the quotient is negative exactly when the operands' signs differ; found condition `"+negCond+"` on `"+src+"`")
			} else {
				r.Check(negCond == "neg_a" && strings.HasPrefix(src, "rem"), rule, "bigint.c:"+name, "remainder takes the dividend's sign", c.cpos(cf, fn), "truncating remainder has the sign of the dividend; found condition `"+negCond+"` on `"+src+"`")
			}
		}
	}
}

func c16R5(c *Ctx, r *Report) {
	const rule = "C16.R5"
	r.Describe(rule, "no implicit narrowing of a 64-bit limb value when it is passed as an argument")
	cf := cLoad(c, r, rule, "runtime/core/bigint.c")
	if cf == nil {
		return
	}
	narrow := map[string]bool{"uint32_t": true, "unsigned int": true, "int": true, "int32_t": true, "uint16_t": true, "uint8_t": true}
	wide := map[string]bool{"ferret_limb_t": true, "uint64_t": true, "unsigned long": true, "const ferret_limb_t": true, "ferret_wide_t": true, "unsigned __int128": true}
	n := 0
	for _, name := range cf.Order {
		cf.Funcs[name].Walk(func(x *CNode) bool {
			if x.Kind != "CallExpr" {
				return true
			}
			for _, a := range x.Args() {
				n++
				if a.Kind == "ImplicitCastExpr" && a.CastKind == "IntegralCast" && narrow[a.Type] && len(a.Inner) == 1 {
					from := a.Inner[0]
					for from.Kind == "ImplicitCastExpr" && len(from.Inner) == 1 && from.CastKind == "LValueToRValue" {
						from = from.Inner[0]
					}
					if wide[from.Type] {
						r.Fail(rule, "bigint.c:"+name, "argument "+a.Src()+" of "+x.Callee(), c.cpos(cf, a), "a "+from.Type+" value is silently narrowed to "+a.Type+" at the call: for operands of 2^32 or more the callee works on value mod 2^32")
					}
				}
			}
			return true
		})
	}
	r.OK(rule, "bigint.c", "call arguments scanned", "-", itoa(n)+" arguments")
	r.Floor(rule, n, 200, "call arguments in bigint.c")
}

func init() {
	lateInits = append(lateInits, func() {
		props["C16"].Quick = append(props["C16"].Quick, c16R6, c16R7)
		props["C11"].Quick = append(props["C11"].Quick, c16R6)
		props["C16"].Explanation += " (R6) the constructor used to convert a 64-bit-or-smaller integer to a large one is chosen by the signedness of the source (zero-extension for unsigned, sign-extension for signed sources) for every source x target pair; (R7) no comparison in bigint.c is decided by the sign of a difference of limbs."
	})
}

// C16.R6: small -> large integer conversion extends by the sign of the source.
func c16R6(c *Ctx, r *Report) {
	const rule = "C16.R6"
	r.Describe(rule, "mir/gen.largeFromSmallFunc, evaluated over every integer source x large integer target: constructor family and 64-bit argument type follow the source's signedness, width follows the target")
	fn := c.LookupFn(pkgMIRGen, "largeFromSmallFunc")
	if !r.Anchor(rule, fn != nil, "mir/gen.largeFromSmallFunc") {
		return
	}
	pe := newPEval(c)
	srcs := []struct {
		name     string
		unsigned bool
	}{{"i8", false}, {"i16", false}, {"i32", false}, {"i64", false}, {"u8", true}, {"u16", true}, {"u32", true}, {"u64", true}, {"byte", true}}
	for _, tn := range largeInts {
		for _, s := range srcs {
			construct := fmt.Sprintf("%s -> %s", s.name, tn)
			res, err := pe.Call(fn, []Val{kstr(tn), prim(s.name)})
			if err != nil {
				r.Fail(rule, fn.Name(), construct, c.pos(fn.Decl.Pos()), "undecidable: "+err.Error())
				continue
			}
			name, _ := strOf(res[0])
			argT, _ := res[1].(*AType)
			okv, _ := res[2].(constant.Value)
			fam, small := "i", "i64"
			if s.unsigned {
				fam, small = "u", "u64"
			}
			want := "ferret_" + fam + tn[1:] + "_from_" + small + "_ptr"
			gotArg := ""
			if argT != nil {
				gotArg = argT.Name
			}
			r.Check(okv != nil && boolVal(okv) && name == want && gotArg == small, rule, fn.Name(), construct+" via "+want, c.pos(fn.Decl.Pos()),
				fmt.Sprintf("%s is converted with %q (64-bit argument type %s), expected %q (%s): the value is extended with the wrong sign (u64 2^64-1 as i128 gives -1; i64 -5 as u128 gives 2^64-5)", construct, name, gotArg, want, small))
		}
	}
	r.Exhaust[rule] = true
}

// C16.R7: no ordering decided by the sign of a limb difference.
func c16R7(c *Ctx, r *Report) {
	const rule = "C16.R7"
	r.Describe(rule, "bigint.c: no cast of a limb-typed subtraction to a signed integer type (comparison by subtraction overflows when the operands differ by 2^(w-1) or more)")
	cf := cLoad(c, r, rule, "runtime/core/bigint.c")
	if cf == nil {
		return
	}
	signed := func(t string) bool {
		switch t {
		case "int", "long", "long long", "int64_t", "int32_t", "ferret_slimb_t", "ssize_t", "ptrdiff_t", "__int128":
			return true
		}
		return false
	}
	n := 0
	for _, name := range cf.Order {
		cf.Funcs[name].Walk(func(x *CNode) bool {
			if (x.Kind == "CStyleCastExpr" || x.Kind == "ImplicitCastExpr") && x.CastKind == "IntegralCast" && signed(x.Type) && len(x.Inner) == 1 {
				n++
				in := x.Inner[0].strip()
				if in != nil && in.Kind == "BinaryOperator" && in.Opcode == "-" && isLimbType(in.Type) {
					r.Fail(rule, "bigint.c:"+name, "signed view of "+in.Src(), c.cpos(cf, x), "the sign of a wrapped limb difference is used as an ordering: for operands whose top limbs differ by 2^63 or more (e.g. 1e38 vs -1e38) the larger value is reported as the smaller")
				}
			}
			return true
		})
	}
	r.OK(rule, "bigint.c", "integral casts to signed types scanned", "-", itoa(n)+" casts")
}
