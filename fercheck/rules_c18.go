package main

import (
	"fmt"
	"go/ast"
	"go/types"
	"sort"
	"strings"
)

func init() {
	register("C18", &propSpec{
		Explanation: "Structural necessary conditions of layout soundness: (R1) DataLayout.SizeOf and AlignOf switch over the same type kinds, and the kinds that fall to the front-end size model are the reviewed ones; (R1b) SizeOf/AlignOf/StructLayout are functions of the type structure and the pointer size only: they read no other receiver state and no package variable, and never look a layout up by a textual rendering of the type; (R2) outside mir/layout.go nothing accumulates field offsets: struct field addresses come from StructLayout(...).FieldOffset, and every stack allocation is sized and aligned by SizeOf/AlignOf of the same type; (R3) every access to an optional flag or result tag in the QBE emitter uses the offset SizeOf(inner) resp. resultTagOffset, whose union-size expression is the one SizeOf(ResultType) places the tag behind, and the runtime reads the optional flag at value_size (C17.R6); (R4) every aggregate copy takes its byte count from DataLayout.SizeOf. Does not decide alignTo/padding arithmetic (trusted), union/enum/function values, the ABI of by-value struct arguments, or any hand-written copy loop.",
		Quick:       []ruleFn{c18R1, c18R1b, c18R2, c18R3, c18R4, c17R6},
		Trusted:     []string{"mir.alignTo(v, a) returns the least multiple of a that is >= v (a >= 1)"},
	})
}

var c18Fallthrough = map[string]string{
	"UnionType":    "size = front-end model (max variant Size + 4-byte tag); unions are outside C18's composite kinds — struct variants are mis-sized (residual, DESIGN.md)",
	"EnumType":     "enum values are lowered as integers; front-end size unused for storage of payload-less enums",
	"FunctionType": "function value = pointer to closure record, 8 bytes in the front-end model (wasm rejects function values)",
	"NamedType":    "removed by types.UnwrapType before the switch",
	"TupleType":    "not produced by the parser",
}

func semTypeKinds(c *Ctx) (map[string]bool, *types.Interface) {
	p := c.ByPath[Mod+"/"+pkgTypes]
	if p == nil {
		return nil, nil
	}
	iface, _ := p.Types.Scope().Lookup("SemType").Type().Underlying().(*types.Interface)
	if iface == nil {
		return nil, nil
	}
	out := map[string]bool{}
	for _, n := range implementers(p.Types, iface) {
		out[n.Obj().Name()] = true
	}
	return out, iface
}

func c18R1(c *Ctx, r *Report) {
	const rule = "C18.R1"
	r.Describe(rule, "SizeOf and AlignOf cover the same SemType kinds; kinds left to the default (front-end size model) are the reviewed ones")
	so := c.LookupFn(pkgMIR, "(*DataLayout).SizeOf")
	ao := c.LookupFn(pkgMIR, "(*DataLayout).AlignOf")
	kinds, _ := semTypeKinds(c)
	if !r.Anchor(rule, so != nil && ao != nil && len(kinds) > 0, "mir.(*DataLayout).SizeOf / AlignOf / types.SemType implementers") {
		return
	}
	cover := func(fn *Fn) map[string]bool {
		out := map[string]bool{}
		sig := fn.Obj.Type().(*types.Signature)
		for _, ts := range typeSwitchesOn(fn.Info(), fn.Decl.Body, sig.Params().At(0)) {
			for _, cc := range ts.Body.List {
				for _, t := range caseTypes(fn.Info(), cc.(*ast.CaseClause)) {
					if nt := namedOf(t); nt != nil {
						out[nt.Obj().Name()] = true
					}
				}
			}
		}
		return out
	}
	cs, ca := cover(so), cover(ao)
	r.Floor(rule, len(cs), 8, "kinds with an explicit SizeOf case")
	for _, k := range sortedKeys(kinds) {
		r.Check(cs[k] == ca[k], rule, "mir.DataLayout", "SizeOf and AlignOf agree on having a case for "+k, c.pos(ao.Decl.Pos()),
			fmt.Sprintf("SizeOf has case=%v, AlignOf has case=%v: size and alignment of %s come from different models, so offsets computed from one overlap storage sized by the other", cs[k], ca[k], k))
		if !cs[k] {
			_, ok := c18Fallthrough[k]
			r.Check(ok, rule, "mir.(*DataLayout).SizeOf", "default branch reached by "+k, c.pos(so.Decl.Pos()),
				k+" has no case and takes the front-end Size() (str = 16 bytes, no padding), which disagrees with the layout model for any component that contains a pointer or needs padding")
		}
	}
}

func c18R1b(c *Ctx, r *Report) {
	const rule = "C18.R1b"
	r.Describe(rule, "layout functions depend only on the type argument and PointerSize/PointerAlign: no other receiver field, no package-level variable, no map keyed by a string")
	n := 0
	for _, name := range []string{"(*DataLayout).SizeOf", "(*DataLayout).AlignOf", "(*DataLayout).StructLayout"} {
		fn := c.LookupFn(pkgMIR, name)
		if !r.Anchor(rule, fn != nil, "mir."+name) {
			continue
		}
		info := fn.Info()
		recv := fn.Obj.Type().(*types.Signature).Recv()
		var bad []string
		where := c.pos(fn.Decl.Pos())
		ast.Inspect(fn.Decl.Body, func(x ast.Node) bool {
			switch e := x.(type) {
			case *ast.SelectorExpr:
				if objOf(info, e.X) == recv {
					if f, ok := info.Uses[e.Sel].(*types.Var); ok && f.IsField() && f.Name() != "PointerSize" && f.Name() != "PointerAlign" {
						// a memo table keyed by the identity of the type object is a function of the type; anything else is state
						if mt, isMap := f.Type().Underlying().(*types.Map); isMap {
							if _, ptrKey := mt.Key().Underlying().(*types.Pointer); ptrKey {
								return true
							}
						}
						bad = append(bad, "receiver field "+f.Name())
						where = c.pos(e.Pos())
					}
				}
			case *ast.Ident:
				if v, ok := info.Uses[e].(*types.Var); ok && !v.IsField() && v.Parent() == v.Pkg().Scope() {
					bad = append(bad, "package variable "+v.Name())
					where = c.pos(e.Pos())
				}
			case *ast.IndexExpr:
				if mt, ok := info.TypeOf(e.X).Underlying().(*types.Map); ok {
					if b, ok := mt.Key().Underlying().(*types.Basic); ok && b.Kind() == types.String {
						// the per-struct name index built inside StructLayout is keyed by field name (unique within a struct)
						if sel, ok := e.X.(*ast.SelectorExpr); ok && sel.Sel.Name == "index" {
							return true
						}
						bad = append(bad, "map keyed by string: "+exprStr(e))
						where = c.pos(e.Pos())
					}
				}
			}
			return true
		})
		n++
		r.Check(len(bad) == 0, rule, fn.Name(), "pure function of (type, pointer size)", where,
			fmt.Sprintf("reads %v: a layout that depends on state outside the type (e.g. a cache keyed by the type's diagnostic rendering, which elides fields) hands one struct the offsets and size of another", bad))
	}
	r.Floor(rule, n, 3, "layout functions")
}

func c18R2(c *Ctx, r *Report) {
	const rule = "C18.R2"
	r.Describe(rule, "single source of offsets: no field-offset accumulation outside mir/layout.go; struct field addresses use FieldOffset; allocations are sized and aligned for the same type")
	sizeOf := c.LookupFn(pkgMIR, "(*DataLayout).SizeOf")
	alignOf := c.LookupFn(pkgMIR, "(*DataLayout).AlignOf")
	fieldOff := c.LookupFn(pkgMIR, "StructLayout.FieldOffset")
	if !r.Anchor(rule, sizeOf != nil && alignOf != nil && fieldOff != nil, "mir SizeOf / AlignOf / FieldOffset") {
		return
	}
	// (a) no accumulation of sizes in a loop over struct fields outside package mir
	nLoops := 0
	for _, rel := range []string{pkgMIRGen, pkgQBE, pkgWasm} {
		for _, fn := range c.AllFns(rel) {
			info := fn.Info()
			ast.Inspect(fn.Decl.Body, func(x ast.Node) bool {
				rs, ok := x.(*ast.RangeStmt)
				if !ok {
					return true
				}
				sel, ok := ast.Unparen(rs.X).(*ast.SelectorExpr)
				if !ok || sel.Sel.Name != "Fields" {
					return true
				}
				if nt := namedOf(info.TypeOf(sel.X)); nt == nil || nt.Obj().Name() != "StructType" {
					return true
				}
				nLoops++
				acc := false
				ast.Inspect(rs.Body, func(y ast.Node) bool {
					if as, ok := y.(*ast.AssignStmt); ok && (as.Tok.String() == "+=") {
						if nodeCalls(info, as, sizeOf.Obj) != nil {
							acc = true
						}
					}
					return true
				})
				r.Check(!acc, rule, fn.Name(), "loop over struct fields does not accumulate sizes", c.pos(rs.Pos()),
					"field offsets are accumulated here instead of being taken from StructLayout: a second offset computation can disagree with the one used for allocation and copies (padding, pointer-sized fields)")
				return true
			})
		}
	}
	r.Floor(rule, nLoops, 1, "loops over struct fields in mir/gen and the back ends")
	// (b) field addressing in mir/gen: lowerFieldAddr / lowerStructLiteralInto take the PtrAdd offset from FieldOffset
	for _, name := range []string{"(*functionBuilder).lowerStructLiteralInto", "(*functionBuilder).lowerSelectorAddr", "(*functionBuilder).lowerFieldAddr"} {
		fn := c.LookupFn(pkgMIRGen, name)
		if fn == nil {
			continue
		}
		info := fn.Info()
		defs := localDefs(fn)
		nAdd := 0
		for _, call := range callsIn(fn.Decl.Body, false) {
			f := callee(info, call)
			if f == nil || f.Name() != "emitPtrAdd" || len(call.Args) < 2 {
				continue
			}
			nAdd++
			off := call.Args[1]
			ok := false
			if o := objOf(info, off); o != nil {
				for _, d := range defs[o] {
					if cl, isCall := ast.Unparen(d).(*ast.CallExpr); isCall && isCallTo(info, cl, fieldOff.Obj) {
						ok = true
					}
				}
				// multi-value define: offset, ok := layout.FieldOffset(...)
				ast.Inspect(fn.Decl.Body, func(x ast.Node) bool {
					if as, isAs := x.(*ast.AssignStmt); isAs && len(as.Lhs) == 2 && len(as.Rhs) == 1 && objOf(info, as.Lhs[0]) == o {
						if cl, isCall := as.Rhs[0].(*ast.CallExpr); isCall && isCallTo(info, cl, fieldOff.Obj) {
							ok = true
						}
					}
					return true
				})
			}
			r.Check(ok, rule, fn.Name(), "field address offset "+exprStr(off)+" from FieldOffset", c.pos(call.Pos()), "the offset of a struct field address does not come from StructLayout.FieldOffset")
		}
		if nAdd == 0 {
			r.Note("%s: %s has no emitPtrAdd", rule, fn.Name())
		}
	}
	// (c) QBE allocations: size and alignment of the same type
	nAlloc := 0
	for _, fn := range c.AllFns(pkgQBE) {
		info := fn.Info()
		defs := localDefs(fn)
		resolve := func(e ast.Expr, fnObj *types.Func) (string, bool) {
			// e is a call fnObj(T) or a local whose every definition is such a call with the same T
			if cl, ok := ast.Unparen(e).(*ast.CallExpr); ok && isCallTo(info, cl, fnObj) {
				return exprStr(cl.Args[0]), true
			}
			o := objOf(info, e)
			if o == nil || len(defs[o]) == 0 {
				return "", false
			}
			t := ""
			for _, d := range defs[o] {
				cl, ok := ast.Unparen(d).(*ast.CallExpr)
				if !ok || !isCallTo(info, cl, fnObj) {
					return "", false
				}
				if t != "" && t != exprStr(cl.Args[0]) {
					return "", false
				}
				t = exprStr(cl.Args[0])
			}
			return t, true
		}
		for _, call := range callsIn(fn.Decl.Body, false) {
			f := callee(info, call)
			if f == nil || f.Name() != "Sprintf" || len(call.Args) != 4 {
				continue
			}
			ao, ok := ast.Unparen(call.Args[2]).(*ast.CallExpr)
			if !ok {
				continue
			}
			if g := callee(info, ao); g == nil || g.Name() != "allocOp" || len(ao.Args) != 1 {
				continue
			}
			if fn.Obj.Name() == "emitAllocSized" || fn.Obj.Name() == "emitStackAlloc" {
				continue
			}
			// helper with (size, align) parameters: callers are checked instead
			if _, isParam := objOf(info, call.Args[3]).(*types.Var); isParam && isParamOf(fn, objOf(info, call.Args[3])) {
				continue
			}
			nAlloc++
			ta, okA := resolve(ao.Args[0], alignOf.Obj)
			ts, okS := resolve(call.Args[3], sizeOf.Obj)
			r.Check(okA && okS && ta == ts, rule, fn.Name(), "alloc "+exprStr(call.Args[1])+": SizeOf/AlignOf of one type", c.pos(call.Pos()),
				fmt.Sprintf("stack slot sized by SizeOf(%s) [resolved=%v] but aligned by AlignOf(%s) [resolved=%v]: a slot sized for one type and used for another is overrun by the stores that follow", ts, okS, ta, okA))
		}
	}
	// the same obligation for the slot helpers: emitStackSlot(name, align, size) and stackAlloc(size, align)
	slotFn := c.LookupFn(pkgQBE, "(*Generator).emitStackSlot")
	stackFn := c.LookupFn(pkgQBE, "(*Generator).stackAlloc")
	for _, fn := range c.AllFns(pkgQBE) {
		info := fn.Info()
		defs := localDefs(fn)
		resolve := func(e ast.Expr, fnObj *types.Func) (string, bool) {
			if cl, ok := ast.Unparen(e).(*ast.CallExpr); ok && isCallTo(info, cl, fnObj) {
				return exprStr(cl.Args[0]), true
			}
			o := objOf(info, e)
			if o == nil || len(defs[o]) == 0 {
				return "", false
			}
			t := ""
			for _, d := range defs[o] {
				cl, ok := ast.Unparen(d).(*ast.CallExpr)
				if !ok || !isCallTo(info, cl, fnObj) {
					return "", false
				}
				if t != "" && t != exprStr(cl.Args[0]) {
					return "", false
				}
				t = exprStr(cl.Args[0])
			}
			return t, true
		}
		for _, call := range callsIn(fn.Decl.Body, false) {
			var alignE, sizeE ast.Expr
			switch {
			case slotFn != nil && isCallTo(info, call, slotFn.Obj) && len(call.Args) == 3:
				alignE, sizeE = call.Args[1], call.Args[2]
			case stackFn != nil && isCallTo(info, call, stackFn.Obj) && len(call.Args) == 2:
				alignE, sizeE = call.Args[1], call.Args[0]
			default:
				continue
			}
			if o := objOf(info, sizeE); o != nil && isParamOf(fn, o) {
				continue // a helper passing its own (size, align) parameters on: its callers are checked
			}
			nAlloc++
			ta, okA := resolve(alignE, alignOf.Obj)
			ts, okS := resolve(sizeE, sizeOf.Obj)
			r.Check(okA && okS && ta == ts, rule, fn.Name(), "stack slot "+exprStr(call.Args[0])+": SizeOf/AlignOf of one type", c.pos(call.Pos()),
				fmt.Sprintf("stack slot sized by SizeOf(%s) [resolved=%v] but aligned by AlignOf(%s) [resolved=%v]: a slot sized for one type and used for another is overrun by the stores that follow", ts, okS, ta, okA))
		}
	}
	r.Floor(rule, nAlloc, 10, "QBE stack allocations")
}

func isParamOf(fn *Fn, o types.Object) bool {
	sig := fn.Obj.Type().(*types.Signature)
	for i := 0; i < sig.Params().Len(); i++ {
		if sig.Params().At(i) == o {
			return true
		}
	}
	return false
}

func c18R3(c *Ctx, r *Report) {
	const rule = "C18.R3"
	r.Describe(rule, "QBE: every optional-flag / result-tag byte access addresses base + SizeOf(opt.Inner) resp. base + resultTagOffset(res); resultTagOffset and SizeOf(ResultType) share the union-size expression")
	sizeOf := c.LookupFn(pkgMIR, "(*DataLayout).SizeOf")
	rto := c.LookupFn(pkgQBE, "(*Generator).resultTagOffset")
	if !r.Anchor(rule, sizeOf != nil && rto != nil, "mir SizeOf / qbe resultTagOffset") {
		return
	}
	n := 0
	for _, fn := range c.AllFns(pkgQBE) {
		info := fn.Info()
		defs := localDefs(fn)
		// format strings of the emitted lines, in source order
		type line struct {
			call *ast.CallExpr
			fmtS string
		}
		var lines []line
		for _, call := range callsIn(fn.Decl.Body, false) {
			f := callee(info, call)
			if f == nil || f.Name() != "Sprintf" || len(call.Args) == 0 {
				continue
			}
			if v := constOf(info, call.Args[0]); v != nil {
				lines = append(lines, line{call, strings.Trim(v.ExactString(), `"`)})
			}
		}
		for _, ln := range lines {
			isFlag := strings.HasPrefix(ln.fmtS, "storeb 0, %s") || strings.HasPrefix(ln.fmtS, "storeb 1, %s") || strings.Contains(ln.fmtS, "=w loadub %s")
			if !isFlag {
				continue
			}
			// the pointer operand is the last argument
			ptr := objOf(info, ln.call.Args[len(ln.call.Args)-1])
			if ptr == nil {
				continue
			}
			n++
			// find the `%s =l add %s, %d` line defining ptr and take its %d operand
			var offExpr ast.Expr
			for _, l2 := range lines {
				if strings.HasPrefix(l2.fmtS, "%s =l add %s, %d") && len(l2.call.Args) == 4 && objOf(info, l2.call.Args[1]) == ptr {
					offExpr = l2.call.Args[3]
				}
			}
			okOff, how := false, "no `add base, offset` found for the pointer"
			if offExpr != nil {
				how = exprStr(offExpr)
				if o := objOf(info, offExpr); o != nil {
					all := len(defs[o]) > 0
					for _, d := range defs[o] {
						cl, isCall := ast.Unparen(d).(*ast.CallExpr)
						if isCall && isCallTo(info, cl, sizeOf.Obj) && strings.HasSuffix(exprStr(cl.Args[0]), ".Inner") {
							continue
						}
						all = false
					}
					if all {
						okOff = true
					}
					// tagOffset, ok := g.resultTagOffset(...)
					ast.Inspect(fn.Decl.Body, func(x ast.Node) bool {
						if as, isAs := x.(*ast.AssignStmt); isAs && len(as.Lhs) == 2 && len(as.Rhs) == 1 && objOf(info, as.Lhs[0]) == o {
							if cl, isCall := as.Rhs[0].(*ast.CallExpr); isCall && isCallTo(info, cl, rto.Obj) {
								okOff = true
							}
						}
						return true
					})
				}
			}
			r.Check(okOff, rule, fn.Name(), "discriminant access `"+ln.fmtS+"` at the layout's flag offset", c.pos(ln.call.Pos()),
				"the flag/tag byte is addressed at "+how+", not at SizeOf(inner) / resultTagOffset: the discriminant lands inside the payload or outside the value and is overwritten by (or overwrites) a neighbour")
		}
	}
	r.Floor(rule, n, 6, "discriminant byte accesses in the QBE emitter")
	// resultTagOffset vs SizeOf(ResultType): same sub-expression alignTo(max(okSize, errSize), max(okAlign, errAlign))
	norm := func(s string) string {
		for _, p := range [][2]string{{"alignToSize", "alignTo"}, {"maxInt", "max"}, {"g.layout.", "d."}, {"res.", "tt."}} {
			s = strings.ReplaceAll(s, p[0], p[1])
		}
		return s
	}
	unionSizeExpr := func(fn *Fn, clause ast.Node) string {
		var out string
		root := ast.Node(fn.Decl.Body)
		if clause != nil {
			root = clause
		}
		ast.Inspect(root, func(x ast.Node) bool {
			if as, ok := x.(*ast.AssignStmt); ok && len(as.Lhs) == 1 && exprStr(as.Lhs[0]) == "unionSize" {
				out = norm(exprStr(as.Rhs[0]))
			}
			return true
		})
		return out
	}
	var resClause ast.Node
	sig := sizeOf.Obj.Type().(*types.Signature)
	for _, ts := range typeSwitchesOn(sizeOf.Info(), sizeOf.Decl.Body, sig.Params().At(0)) {
		for _, cc := range ts.Body.List {
			for _, t := range caseTypes(sizeOf.Info(), cc.(*ast.CaseClause)) {
				if nt := namedOf(t); nt != nil && nt.Obj().Name() == "ResultType" {
					resClause = cc
				}
			}
		}
	}
	a, b := unionSizeExpr(rto, nil), unionSizeExpr(sizeOf, resClause)
	if a != "" && b == "" && resClause != nil {
		r.Fail(rule, sizeOf.Name(), "SizeOf(ResultType) rounds the payload area like resultTagOffset", c.pos(resClause.Pos()),
			"resultTagOffset places the tag behind "+a+", but SizeOf(ResultType) no longer computes that rounded payload area: when the larger member's size is not a multiple of the larger alignment (str ! struct{i32,i32,i32}: tag at 16) the size reserved for the result (16) ends before the tag, so the tag byte is written and read outside the result's slot")
	} else if r.Anchor(rule, a != "" && b != "", "unionSize in resultTagOffset and in SizeOf(ResultType)") {
		r.Check(a == b, rule, rto.Name(), "tag offset = the union size SizeOf(ResultType) places the tag behind", c.pos(rto.Decl.Pos()),
			fmt.Sprintf("resultTagOffset computes %s but SizeOf(ResultType) reserves the tag byte behind %s", a, b))
		// and SizeOf reserves at least one byte after it
		okPlus := false
		ast.Inspect(resClause, func(x ast.Node) bool {
			if ret, ok := x.(*ast.ReturnStmt); ok && len(ret.Results) == 1 && strings.Contains(exprStr(ret.Results[0]), "unionSize + 1") {
				okPlus = true
			}
			return true
		})
		r.Check(okPlus, rule, sizeOf.Name(), "SizeOf(ResultType) >= unionSize + 1", c.pos(resClause.Pos()), "the result's size no longer includes the tag byte behind the payload union")
	}
	// optional: SizeOf(OptionalType) reserves valSize + 1
	var optClause ast.Node
	for _, ts := range typeSwitchesOn(sizeOf.Info(), sizeOf.Decl.Body, sig.Params().At(0)) {
		for _, cc := range ts.Body.List {
			for _, t := range caseTypes(sizeOf.Info(), cc.(*ast.CaseClause)) {
				if nt := namedOf(t); nt != nil && nt.Obj().Name() == "OptionalType" {
					optClause = cc
				}
			}
		}
	}
	if r.Anchor(rule, optClause != nil, "SizeOf: case *types.OptionalType") {
		src := ""
		ast.Inspect(optClause, func(x ast.Node) bool {
			if cl, ok := x.(*ast.CallExpr); ok && exprStr(cl.Fun) == "alignTo" {
				src = exprStr(cl)
			}
			return true
		})
		r.Check(strings.HasPrefix(src, "alignTo(valSize + 1") || strings.HasPrefix(src, "alignTo(valSize+1"), rule, sizeOf.Name(), "SizeOf(OptionalType) >= SizeOf(inner) + 1", c.pos(optClause.Pos()), "the optional's size no longer includes the flag byte the emitters write at SizeOf(inner): found "+src)
	}
}

func c18R4(c *Ctx, r *Report) {
	const rule = "C18.R4"
	r.Describe(rule, "every aggregate copy (mir/gen emitMemcpy, QBE emitMemcpy, wasm emitMemcpy) takes its byte count from DataLayout.SizeOf")
	sizeOf := c.LookupFn(pkgMIR, "(*DataLayout).SizeOf")
	if !r.Anchor(rule, sizeOf != nil, "mir SizeOf") {
		return
	}
	n := 0
	// mir/gen: emitMemcpy(dst, src, typ, loc) computes SizeOf(typ) itself
	if fn := c.LookupFn(pkgMIRGen, "(*functionBuilder).emitMemcpy"); r.Anchor(rule, fn != nil, "mir/gen emitMemcpy") {
		info := fn.Info()
		sig := fn.Obj.Type().(*types.Signature)
		var typParam types.Object
		for i := 0; i < sig.Params().Len(); i++ {
			if nt := namedOf(sig.Params().At(i).Type()); nt != nil && nt.Obj().Name() == "SemType" {
				typParam = sig.Params().At(i)
			}
		}
		ok := false
		for _, cl := range callsIn(fn.Decl.Body, false) {
			if isCallTo(info, cl, sizeOf.Obj) && len(cl.Args) == 1 && objOf(info, cl.Args[0]) == typParam && typParam != nil {
				ok = true
			}
		}
		n++
		r.Check(ok, rule, fn.Name(), "size = SizeOf(typ)", c.pos(fn.Decl.Pos()), "the MIR-level copy no longer derives its length from the layout size of the copied type")
	}
	for _, rel := range []string{pkgQBE, pkgWasm} {
		var mc *Fn
		if mc = c.LookupFn(rel, "(*Generator).emitMemcpy"); !r.Anchor(rule, mc != nil, rel+" emitMemcpy") {
			continue
		}
		sizeIdx := -1
		sig := mc.Obj.Type().(*types.Signature)
		for i := 0; i < sig.Params().Len(); i++ {
			if sig.Params().At(i).Name() == "size" {
				sizeIdx = i
			}
		}
		if !r.Anchor(rule, sizeIdx >= 0, rel+" emitMemcpy(size)") {
			continue
		}
		for _, fn := range c.AllFns(rel) {
			info := fn.Info()
			defs := localDefs(fn)
			for _, call := range callsIn(fn.Decl.Body, false) {
				if !isCallTo(info, call, mc.Obj) {
					continue
				}
				arg := call.Args[sizeIdx]
				o := objOf(info, arg)
				if o != nil && isParamOf(fn, o) {
					continue // forwarding helper: its callers are checked
				}
				n++
				ok := false
				if cl, isCall := ast.Unparen(arg).(*ast.CallExpr); isCall && isCallTo(info, cl, sizeOf.Obj) {
					ok = true
				} else if o != nil && len(defs[o]) > 0 {
					ok = true
					for _, d := range defs[o] {
						cl, isCall := ast.Unparen(d).(*ast.CallExpr)
						if !isCall || !isCallTo(info, cl, sizeOf.Obj) {
							ok = false
						}
					}
				}
				r.Check(ok, rule, fn.Name(), "copy length "+exprStr(arg)+" from SizeOf", c.pos(call.Pos()),
					"the byte count of an aggregate copy is not a DataLayout.SizeOf result: part of the value is left behind or the neighbour is overwritten")
			}
		}
	}
	r.Floor(rule, n, 12, "aggregate copy sites")
	_ = sort.Strings
}
