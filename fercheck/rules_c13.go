package main

import (
	"fmt"
	"go/ast"
	"go/constant"
	"go/token"
	"go/types"
	"os"
	"regexp/syntax"
	"strings"

	"golang.org/x/tools/go/cfg"
)

const pkgLexer = "internal/frontend/lexer"
const pkgSource = "internal/source"
const pkgCompiler = "internal/compiler"

func init() {
	register("C13", &propSpec{
		Explanation: "Structural necessary conditions of totality and faithful failure: (R1) every lexer pattern is anchored and cannot match the empty string, every handler and the fallback advance; (R2) every loop of the parser consumes a token on each path back to its head; (R4) the diagnostics API tolerates missing locations and no literal nil is passed where the callee dereferences it; (R5) Compile turns a pipeline error into a failing result and derives success from the error count; main exits non-zero iff !Success; (R6) generated files are removed on every exit of the native phase and the wasm module is written only behind an error gate; (R8) per-token work does not copy the whole source; (R9) diagnostic locations do not alias the lexer's moving position. Does not decide wall-clock bounds, memory use, QBE, as or ld.",
		Quick:       []ruleFn{c13R1, c13R2, c13R3b, c13R4, c13R5, c13R6, c13R8R9},
	})
}

// regexMinLen: minimal length of a match of re.
func regexMinLen(re *syntax.Regexp) int {
	switch re.Op {
	case syntax.OpLiteral:
		return len(re.Rune)
	case syntax.OpCharClass, syntax.OpAnyCharNotNL, syntax.OpAnyChar:
		return 1
	case syntax.OpCapture:
		return regexMinLen(re.Sub[0])
	case syntax.OpConcat:
		n := 0
		for _, s := range re.Sub {
			n += regexMinLen(s)
		}
		return n
	case syntax.OpAlternate:
		m := -1
		for _, s := range re.Sub {
			if l := regexMinLen(s); m < 0 || l < m {
				m = l
			}
		}
		if m < 0 {
			return 0
		}
		return m
	case syntax.OpPlus:
		return regexMinLen(re.Sub[0])
	case syntax.OpRepeat:
		return re.Min * regexMinLen(re.Sub[0])
	}
	return 0 // star, quest, empty, anchors
}

func regexAnchoredAtStart(re *syntax.Regexp) bool {
	switch re.Op {
	case syntax.OpBeginText:
		return true
	case syntax.OpConcat:
		return len(re.Sub) > 0 && regexAnchoredAtStart(re.Sub[0])
	case syntax.OpCapture:
		return regexAnchoredAtStart(re.Sub[0])
	case syntax.OpAlternate:
		for _, s := range re.Sub {
			if !regexAnchoredAtStart(s) {
				return false
			}
		}
		return len(re.Sub) > 0
	}
	return false
}

func c13R1(c *Ctx, r *Report) {
	const rule = "C13.R1"
	r.Describe(rule, "lexer progress: every pattern anchored at the start with minimum match length >= 1; handlers advance by the matched text; the fallback advances one byte")
	newFn := c.LookupFn(pkgLexer, "New")
	tok := c.LookupFn(pkgLexer, "(*Lexer).Tokenize")
	adv := c.LookupFn(pkgLexer, "(*Lexer).advance")
	if !r.Anchor(rule, newFn != nil && tok != nil && adv != nil, "lexer.New / Lexer.Tokenize / Lexer.advance") {
		return
	}
	info := newFn.Info()
	pe := newPEval(c)
	pe.Hook = func(pe *PEval, info *types.Info, call *ast.CallExpr, args []Val) (Val, bool) {
		if f := callee(info, call); f != nil && f.Pkg() != nil && f.Pkg().Path() == "regexp" && (f.Name() == "MustCompile" || f.Name() == "Compile") && len(args) == 1 {
			return args[0], true
		}
		return nil, false
	}
	// the patterns table: composite literal of []regexPattern in New
	n := 0
	ast.Inspect(newFn.Decl.Body, func(nd ast.Node) bool {
		cl, ok := nd.(*ast.CompositeLit)
		if !ok {
			return true
		}
		st, ok := info.TypeOf(cl).Underlying().(*types.Slice)
		if !ok || !isNamed(st.Elem(), Mod+"/"+pkgLexer, "regexPattern") {
			return true
		}
		for _, el := range cl.Elts {
			ecl, ok := el.(*ast.CompositeLit)
			if !ok || len(ecl.Elts) < 2 {
				continue
			}
			n++
			rx := ecl.Elts[0]
			if kv, ok := rx.(*ast.KeyValueExpr); ok {
				rx = kv.Value
			}
			pattern := ""
			okPat := false
			if call, ok := ast.Unparen(rx).(*ast.CallExpr); ok {
				// regexp.MustCompile(p) or a module helper wrapping it: fold to the pattern text
				args := make([]Val, len(call.Args))
				for i, a := range call.Args {
					if v := constOf(info, a); v != nil {
						args[i] = v
					} else {
						args[i] = unknownVal{"non-constant pattern"}
					}
				}
				if f := callee(info, call); f != nil {
					if f.Pkg() != nil && f.Pkg().Path() == "regexp" && len(args) == 1 {
						pattern, okPat = strOf(args[0])
					} else if fn := c.FnOf(f); fn != nil {
						if res, err := pe.Call(fn, args); err == nil && len(res) == 1 {
							pattern, okPat = strOf(res[0])
						}
					}
				}
			}
			construct := fmt.Sprintf("pattern #%d %s", n, exprStr(rx))
			if len(construct) > 90 {
				construct = construct[:90]
			}
			if !okPat {
				r.Fail(rule, newFn.Name(), construct, c.pos(rx.Pos()), "pattern text is not a compile-time constant; progress cannot be decided")
				continue
			}
			re, err := syntax.Parse(pattern, syntax.Perl)
			if err != nil {
				r.Fail(rule, newFn.Name(), construct, c.pos(rx.Pos()), "pattern does not parse: "+err.Error())
				continue
			}
			re = re.Simplify()
			r.Check(regexMinLen(re) >= 1, rule, newFn.Name(), construct+" min length >= 1", c.pos(rx.Pos()), fmt.Sprintf("pattern %q can match the empty string: the lexer would loop forever at this position", pattern))
			r.Check(regexAnchoredAtStart(re), rule, newFn.Name(), construct+" anchored", c.pos(rx.Pos()), fmt.Sprintf("pattern %q is not anchored at the current position: the regexp engine scans the rest of the file for a later match at every token (quadratic lexing)", pattern))
		}
		return false
	})
	r.Floor(rule, n, 50, "lexer patterns")
	// handlers: every function of type regexHandler in the package (named functions and the literal in defaultHandler) calls lex.advance
	hT := c.lookupType(pkgLexer, "regexHandler")
	nh := 0
	if r.Anchor(rule, hT != nil, "lexer.regexHandler") {
		sigStr := hT.Type().Underlying().String()
		for _, fn := range c.AllFns(pkgLexer) {
			check := func(name string, body *ast.BlockStmt, sig string, pos token.Pos) {
				if sig != sigStr {
					return
				}
				nh++
				r.Check(nodeCalls(fn.Info(), body, adv.Obj) != nil, rule, name, "handler advances", c.pos(pos), "a token handler that does not advance the position makes Tokenize loop forever on that token")
			}
			if fn.Obj.Type().(*types.Signature).Recv() == nil {
				check(fn.Name(), fn.Decl.Body, fn.Obj.Type().Underlying().String(), fn.Decl.Pos())
			}
			ast.Inspect(fn.Decl.Body, func(nd ast.Node) bool {
				if fl, ok := nd.(*ast.FuncLit); ok {
					check(fn.Name()+"$lit", fl.Body, fn.Info().TypeOf(fl).Underlying().String(), fl.Pos())
				}
				return true
			})
		}
	}
	r.Floor(rule, nh, 6, "token handlers")
	// Tokenize: the !matched fallback advances; the loop is guarded by atEOF
	tinfo := tok.Info()
	fallback := false
	ast.Inspect(tok.Decl.Body, func(nd ast.Node) bool {
		ifs, ok := nd.(*ast.IfStmt)
		if !ok {
			return true
		}
		if u, ok := ast.Unparen(ifs.Cond).(*ast.UnaryExpr); ok && u.Op == token.NOT {
			if id, ok := ast.Unparen(u.X).(*ast.Ident); ok && id.Name == "matched" && nodeCalls(tinfo, ifs.Body, adv.Obj) != nil {
				fallback = true
			}
		}
		return true
	})
	r.Check(fallback, rule, tok.Name(), "unmatched input: advance", c.pos(tok.Decl.Pos()), "when no pattern matches, Tokenize must skip the offending byte, otherwise it loops forever")
}

// ---- R2 parser loop progress -------------------------------------------------------------------

const pkgParserRel = "internal/frontend/parser"

// parserConsumers: functions of package parser that may move Parser.current forward.
func parserConsumers(c *Ctx) (may map[*types.Func]bool, prim map[*types.Func]bool) {
	cur := c.fieldObj(pkgParserRel, "Parser", "current")
	may, prim = map[*types.Func]bool{}, map[*types.Func]bool{}
	fns := c.AllFns(pkgParserRel)
	for _, fn := range fns {
		info := fn.Info()
		// locals initialised from p.current (save/restore idiom)
		saved := map[types.Object]bool{}
		ast.Inspect(fn.Decl.Body, func(n ast.Node) bool {
			if as, ok := n.(*ast.AssignStmt); ok && len(as.Lhs) == 1 && len(as.Rhs) == 1 && fieldOf(info, as.Rhs[0]) == cur {
				if id, ok := as.Lhs[0].(*ast.Ident); ok {
					if o := info.Defs[id]; o != nil {
						saved[o] = true
					}
				}
			}
			return true
		})
		moves, restores := false, false
		ast.Inspect(fn.Decl.Body, func(n ast.Node) bool {
			switch x := n.(type) {
			case *ast.IncDecStmt:
				if fieldOf(info, x.X) == cur && x.Tok == token.INC {
					moves = true
				}
			case *ast.AssignStmt:
				for i, l := range x.Lhs {
					if fieldOf(info, l) != cur {
						continue
					}
					if i < len(x.Rhs) {
						if id, ok := ast.Unparen(x.Rhs[i]).(*ast.Ident); ok && saved[info.Uses[id]] {
							restores = true
							continue
						}
					}
					moves = true
				}
			}
			return true
		})
		if moves && !restores {
			prim[fn.Obj] = true
			may[fn.Obj] = true
		}
		if restores {
			// look-ahead helper: net effect zero (every exit restores); treated as non-consuming
			c.cache["parser-lookahead:"+fn.Obj.Name()] = true
		}
	}
	for changed := true; changed; {
		changed = false
		for _, fn := range fns {
			if may[fn.Obj] || c.cache["parser-lookahead:"+fn.Obj.Name()] != nil {
				continue
			}
			for _, call := range callsIn(fn.Decl.Body, true) {
				if f := callee(fn.Info(), call); f != nil && may[f] {
					may[fn.Obj] = true
					changed = true
					break
				}
			}
		}
	}
	return
}

// loops whose progress rests on a "returns nil when nothing was consumed" convention the must-consume analysis cannot see
var c13R2mReviewed = map[string]string{
	"frontend/parser.(*Parser).parseBlock":  "parseStmt returns nil when it could not start a statement and the loop then advances itself; a non-nil statement has consumed at least its first token (checked by hand for every branch of parseStmt; `fn main() { <tok> }` terminates for every token kind)",
	"frontend/parser.(*Parser).parseModule": "parseTopLevel's default branch reports and advances; every declaration parser consumes its leading keyword (`<tok>` at top level terminates for every token kind)",
}

func c13R2(c *Ctx, r *Report) {
	const rule = "C13.R2"
	r.Describe(rule, "parser loops: every path from a loop head back to the head passes a call that may consume a token, and — except in two reviewed statement-level loops — a call that always consumes one (must-consume functions computed as a fixpoint over the parser's call graph; expect(kind) counts unless expectError returns without consuming for that kind)")
	may, prim := parserConsumers(c)
	if !r.Anchor(rule, len(prim) >= 2, "parser primitives that move Parser.current (advance, advanceRaw)") {
		return
	}
	expect := c.LookupFn(pkgParserRel, "(*Parser).expect")
	expectErr := c.LookupFn(pkgParserRel, "(*Parser).expectError")
	// token kinds for which expectError reports and returns *without* consuming: read off its body — every
	// `if kind == tokens.X { … return … }` branch that contains no consuming call
	nonConsuming := map[*types.Const]bool{}
	if expectErr != nil && expectErr.Decl.Body != nil {
		einfo := expectErr.Info()
		kindP := expectErr.Param(0)
		for _, st := range expectErr.Decl.Body.List {
			ifs, ok := st.(*ast.IfStmt)
			if !ok {
				continue
			}
			consumes := nodeCallsPred(ifs.Body, func(cl *ast.CallExpr) bool { f := callee(einfo, cl); return f != nil && may[f] }) != nil
			if consumes {
				continue
			}
			for _, d := range disjuncts(ifs.Cond) {
				if b, ok := isBinOp(d, token.EQL); ok && kindP != nil && usesVar(einfo, b.X, kindP) {
					if k := constObj(einfo, b.Y); k != nil {
						nonConsuming[k] = true
					}
				}
			}
		}
	}
	r.Note("expectError returns without consuming for %d token kind(s)", len(nonConsuming))
	mustSet := parserMustConsumers(c, may, prim, nonConsuming)
	r.Note("must-consume functions: %d of %d may-consume", len(mustSet), len(may))
	if os.Getenv("FERCHECK_DEBUG_MUST") != "" {
		for f := range may {
			if !mustSet[f] {
				r.Note("may-only: %s", f.Name())
			}
		}
	}
	nloops := 0
	for _, fn := range c.AllFns(pkgParserRel) {
		info := fn.Info()
		isConsume := func(call *ast.CallExpr) bool {
			f := callee(info, call)
			if f == nil || !may[f] {
				return false
			}
			// expect(SEMICOLON) reports and returns without consuming when the semicolon is missing
			if (expect != nil && f == expect.Obj || expectErr != nil && f == expectErr.Obj) && len(call.Args) >= 1 {
				if k := constObj(info, call.Args[0]); k == nil || nonConsuming[k] {
					return false // a non-constant kind is assumed to be one of the non-consuming ones
				}
			}
			return true
		}
		ast.Inspect(fn.Decl.Body, func(n ast.Node) bool {
			loop, ok := n.(*ast.ForStmt)
			if !ok {
				return true
			}
			// index loops over a slice (for i := 0; i < len(x); i++) make progress by construction
			if loop.Post != nil {
				if inc, ok := loop.Post.(*ast.IncDecStmt); ok && inc.Tok == token.INC {
					return true
				}
			}
			// token-driven loops only: the condition consults the parser (match / isAtEnd / ...) or is absent
			if loop.Cond != nil && nodeCallsPred(loop.Cond, func(cl *ast.CallExpr) bool {
				f := callee(info, cl)
				return f != nil && isMethod(f, Mod+"/"+pkgParserRel, "Parser", f.Name())
			}) == nil {
				return true
			}
			nloops++
			marker := loop.Cond
			synth := &ast.ForStmt{For: loop.For, Cond: loop.Cond, Post: loop.Post, Body: loop.Body}
			if marker == nil {
				id := ast.NewIdent("true")
				id.NamePos = loop.For
				marker, synth.Cond = id, id
			}
			g := cfg.New(&ast.BlockStmt{List: []ast.Stmt{synth}}, func(*ast.CallExpr) bool { return true })
			hits := mustFlow(g, FlowSpec{
				InitTrue: true,
				Target:   func(nd ast.Node) bool { return nd == ast.Node(marker) },
				Kill:     func(nd ast.Node) bool { return nd == ast.Node(marker) && nodeCallsPred(nd, isConsume) == nil },
				Gate:     func(nd ast.Node) bool { return nodeCallsPred(nd, isConsume) != nil },
			})
			if mustSet != nil {
				isMust := func(call *ast.CallExpr) bool {
					f := callee(info, call)
					return f != nil && mustSet[f] && isConsume(call)
				}
				mh := mustFlow(g, FlowSpec{
					InitTrue: true,
					Target:   func(nd ast.Node) bool { return nd == ast.Node(marker) },
					Kill:     func(nd ast.Node) bool { return nd == ast.Node(marker) && nodeCallsPred(nd, isMust) == nil },
					Gate:     func(nd ast.Node) bool { return nodeCallsPred(nd, isMust) != nil },
				})
				mkey := fmt.Sprintf("loop #%d: every iteration passes a call that always consumes", nloops)
				if reason, ok := c13R2mReviewed[fn.Name()]; ok && len(mh) > 0 {
					r.OK(rule, fn.Name(), mkey+" (reviewed: "+reason+")", c.pos(loop.Pos()), "reviewed exception")
				} else {
					r.Check(len(mh) == 0, rule, fn.Name(), mkey, c.pos(loop.Pos()),
						"some path through the loop body reaches the loop head again through calls that only *may* consume a token (element parsers that return without advancing on a token they cannot start with, expect() of a kind that is reported without being consumed): on such input the parser state is unchanged and the loop never terminates")
				}
			}
			construct := fmt.Sprintf("loop #%d `for %s`", nloops, exprStr(loopCondOrTrue(loop)))
			if len(construct) > 100 {
				construct = construct[:100]
			}
			r.Check(len(hits) == 0, rule, fn.Name(), construct, c.pos(loop.Pos()),
				"some path through the loop body returns to the loop head without any call that can consume a token: with the parser state unchanged the loop never terminates (hang on malformed input)")
			return true
		})
	}
	r.Floor(rule, nloops, 20, "token-driven parser loops")
}

func loopCondOrTrue(l *ast.ForStmt) ast.Expr {
	if l.Cond != nil {
		return l.Cond
	}
	return ast.NewIdent("true")
}

// ---- R4 nil tolerance ----------------------------------------------------------------------------

func c13R4(c *Ctx, r *Report) {
	const rule = "C13.R4"
	r.Describe(rule, "diagnostics API dereferences locations only under nil guards; literal nil arguments are not dereferenced by the callee")
	// (b) diagnostics builders and the sort: every dereference of a *source.Location / its Filename / Start is nil-guarded
	locT := c.lookupType(pkgSource, "Location")
	if !r.Anchor(rule, locT != nil, "source.Location") {
		return
	}
	for _, name := range []string{"(*Diagnostic).WithLabel", "(*Diagnostic).WithPrimaryLabel", "(*Diagnostic).WithSecondaryLabel", "(*Diagnostic).WithCodeHint", "sortDiagnostics"} {
		fn := c.LookupFn(pkgDiag, name)
		if !r.Anchor(rule, fn != nil, "diagnostics."+name) {
			continue
		}
		derefs := unguardedLocDerefs(c, fn)
		if len(derefs) == 0 {
			r.OK(rule, fn.Name(), "location dereferences nil-guarded", c.pos(fn.Decl.Pos()), "all")
		}
		for _, d := range derefs {
			r.Fail(rule, fn.Name(), "unguarded "+d.what, c.pos(d.pos), "a diagnostic whose location (or its file name / start position) is nil makes the compiler crash here instead of reporting the error")
		}
	}
	// (a) literal nil arguments
	n := 0
	for _, p := range c.Pkgs {
		rel := relOf(p.PkgPath)
		if !strings.HasPrefix(rel, "internal/") || strings.HasPrefix(rel, "internal/codegen") || strings.HasPrefix(rel, "internal/mir") {
			continue
		}
		for _, fn := range c.AllFns(rel) {
			info := fn.Info()
			for _, call := range callsIn(fn.Decl.Body, true) {
				f := callee(info, call)
				if f == nil {
					continue
				}
				cal := c.FnOf(f)
				if cal == nil {
					continue
				}
				sig := f.Type().(*types.Signature)
				for i, a := range call.Args {
					if !info.Types[a].IsNil() || i >= sig.Params().Len() {
						continue
					}
					param := sig.Params().At(i)
					n++
					if pos, what := paramDerefUnguarded(c, cal, param, 2); what != "" {
						r.Fail(rule, fn.Name(), fmt.Sprintf("%s(... %s = nil ...)", f.Name(), param.Name()), c.pos(call.Pos()),
							fmt.Sprintf("nil is passed for parameter %s of %s, which dereferences it without a nil test (%s at %s): compiler crash", param.Name(), funcKey(f), what, c.pos(pos)))
					} else {
						r.OK(rule, fn.Name(), fmt.Sprintf("%s(... %s = nil ...)", f.Name(), param.Name()), c.pos(call.Pos()), "callee guards or does not dereference")
					}
				}
			}
		}
	}
	r.Floor(rule, n, 20, "call sites passing a literal nil")
}

type derefSite struct {
	what string
	pos  token.Pos
}

// unguardedLocDerefs: expressions *X, X.Filename, X.Start.Line ... where X has type *source.Location (or
// *source.Position / *string reached from it) and no enclosing condition / earlier terminating guard tests X != nil.
func unguardedLocDerefs(c *Ctx, fn *Fn) []derefSite {
	info := fn.Info()
	condBoolDefs = map[string]ast.Expr{}
	defer func() { condBoolDefs = nil }()
	ast.Inspect(fn.Decl.Body, func(n ast.Node) bool {
		if as, ok := n.(*ast.AssignStmt); ok && as.Tok == token.DEFINE && len(as.Lhs) == 1 && len(as.Rhs) == 1 {
			if id, ok := as.Lhs[0].(*ast.Ident); ok {
				if b, ok := info.TypeOf(as.Rhs[0]).Underlying().(*types.Basic); ok && b.Kind() == types.Bool {
					condBoolDefs[id.Name] = as.Rhs[0]
				}
			}
		}
		return true
	})
	var out []derefSite
	isPtrTo := func(t types.Type, name string) bool {
		p, ok := t.(*types.Pointer)
		return ok && isNamed(p.Elem(), Mod+"/"+pkgSource, name)
	}
	guarded := func(x ast.Expr, at ast.Node, stack []ast.Node) bool {
		xs := exprStr(x)
		// enclosing if / && chain mentioning `xs != nil`, or an earlier `if xs == nil { return/continue }`
		for i := len(stack) - 1; i >= 0; i-- {
			switch a := stack[i].(type) {
			case *ast.IfStmt:
				if containsNode(a.Body, at) && condImplies(a.Cond, xs, true) {
					return true
				}
				if a.Else != nil && containsNode(a.Else, at) && condImplies(a.Cond, xs, false) {
					return true
				}
			case *ast.BinaryExpr:
				if a.Op == token.LAND && containsNode(a.Y, at) && condImplies(a.X, xs, true) {
					return true
				}
				if a.Op == token.LOR && containsNode(a.Y, at) && condImplies(a.X, xs, false) {
					return true
				}
			case *ast.BlockStmt:
				for _, s := range a.List {
					if s.End() > at.Pos() {
						break
					}
					if ifs, ok := s.(*ast.IfStmt); ok && thenTerminates(ifs) && condImplies(ifs.Cond, xs, false) {
						return true
					}
				}
			case *ast.FuncLit:
				for _, s := range a.Body.List {
					if s.End() > at.Pos() {
						break
					}
					if ifs, ok := s.(*ast.IfStmt); ok && thenTerminates(ifs) && condImplies(ifs.Cond, xs, false) {
						return true
					}
				}
			}
		}
		return false
	}
	walkWithStack(fn.Decl.Body, func(n ast.Node, stack []ast.Node) bool {
		switch x := n.(type) {
		case *ast.StarExpr:
			t := info.TypeOf(x.X)
			if t == nil {
				return true
			}
			// *loc.Filename : needs loc != nil and loc.Filename != nil
			if _, ok := t.(*types.Pointer); ok {
				if sel, ok := ast.Unparen(x.X).(*ast.SelectorExpr); ok && isPtrTo(info.TypeOf(sel.X), "Location") {
					if !guarded(sel.X, x, stack) {
						out = append(out, derefSite{"*" + exprStr(x.X) + " (location may be nil)", x.Pos()})
					} else if !guarded(x.X, x, stack) {
						out = append(out, derefSite{"*" + exprStr(x.X) + " (file name may be nil)", x.Pos()})
					}
				}
			}
		case *ast.SelectorExpr:
			// loc.Start.Line : loc and loc.Start must be non-nil
			if isPtrTo(info.TypeOf(x.X), "Position") {
				if inner, ok := ast.Unparen(x.X).(*ast.SelectorExpr); ok && isPtrTo(info.TypeOf(inner.X), "Location") {
					if !guarded(inner.X, x, stack) {
						out = append(out, derefSite{exprStr(x) + " (location may be nil)", x.Pos()})
					} else if !guarded(x.X, x, stack) {
						out = append(out, derefSite{exprStr(x) + " (position may be nil)", x.Pos()})
					}
				}
			}
		}
		return true
	})
	return out
}

// condImplies: cond being `want` implies xs != nil. Recognises xs != nil, xs == nil, &&, ||, !, and
// boolean locals defined as such tests (iMissing := iLoc == nil || iLoc.Start == nil).
var condBoolDefs map[string]ast.Expr // boolean locals of the function under analysis: name -> defining expression

func condImplies(cond ast.Expr, xs string, want bool) bool {
	cond = ast.Unparen(cond)
	switch x := cond.(type) {
	case *ast.Ident:
		if def, ok := condBoolDefs[x.Name]; ok {
			return condImplies(def, xs, want)
		}
	case *ast.UnaryExpr:
		if x.Op == token.NOT {
			return condImplies(x.X, xs, !want)
		}
	case *ast.BinaryExpr:
		switch x.Op {
		case token.NEQ:
			if exprStr(x.X) == xs && exprStr(x.Y) == "nil" {
				return want
			}
		case token.EQL:
			if exprStr(x.X) == xs && exprStr(x.Y) == "nil" {
				return !want
			}
		case token.LAND:
			if want {
				return condImplies(x.X, xs, true) || condImplies(x.Y, xs, true)
			}
			return condImplies(x.X, xs, false) && condImplies(x.Y, xs, false)
		case token.LOR:
			if want {
				return condImplies(x.X, xs, true) && condImplies(x.Y, xs, true)
			}
			return condImplies(x.X, xs, false) || condImplies(x.Y, xs, false)
		}
	}
	return false
}

// paramDerefUnguarded: callee dereferences param (method call on interface, field access, *p) on some
// path without a nil guard; follows pass-through to other module functions up to depth.
func paramDerefUnguarded(c *Ctx, fn *Fn, param *types.Var, depth int) (token.Pos, string) {
	info := fn.Info()
	var pos token.Pos
	what := ""
	ps := param.Name()
	walkWithStack(fn.Decl.Body, func(n ast.Node, stack []ast.Node) bool {
		if what != "" {
			return false
		}
		isParam := func(e ast.Expr) bool { return usesVar(info, e, param) }
		guard := func(at ast.Node) bool {
			for i := len(stack) - 1; i >= 0; i-- {
				switch a := stack[i].(type) {
				case *ast.IfStmt:
					if containsNode(a.Body, at) && condImplies(a.Cond, ps, true) {
						return true
					}
					if a.Else != nil && containsNode(a.Else, at) && condImplies(a.Cond, ps, false) {
						return true
					}
				case *ast.BinaryExpr:
					if a.Op == token.LAND && containsNode(a.Y, at) && condImplies(a.X, ps, true) {
						return true
					}
					if a.Op == token.LOR && containsNode(a.Y, at) && condImplies(a.X, ps, false) {
						return true
					}
				case *ast.BlockStmt:
					for _, s := range a.List {
						if s.End() > at.Pos() {
							break
						}
						if ifs, ok := s.(*ast.IfStmt); ok && thenTerminates(ifs) && condImplies(ifs.Cond, ps, false) {
							return true
						}
					}
				case *ast.CaseClause:
					for _, s := range a.Body {
						if s.End() > at.Pos() {
							break
						}
						if ifs, ok := s.(*ast.IfStmt); ok && thenTerminates(ifs) && condImplies(ifs.Cond, ps, false) {
							return true
						}
					}
					// inside a typed case of a type switch on the param the value is non-nil
					if i >= 2 {
						if ts, ok := stack[i-2].(*ast.TypeSwitchStmt); ok && len(a.List) > 0 {
							for _, tsw := range typeSwitchesOn(info, ts, param) {
								if tsw == ts {
									return true
								}
							}
						}
					}
				}
			}
			return false
		}
		switch x := n.(type) {
		case *ast.SelectorExpr:
			if isParam(x.X) {
				// field access through pointer or method call on interface value
				if _, isPtr := param.Type().Underlying().(*types.Pointer); isPtr {
					if sel := info.Selections[x]; sel != nil && sel.Kind() == types.MethodVal {
						// a method with a pointer receiver may be called on nil if the method itself guards
						if m, ok := sel.Obj().(*types.Func); ok && !guard(x) {
							msig := m.Type().(*types.Signature)
							if _, ptrRecv := msig.Recv().Type().(*types.Pointer); ptrRecv && depth > 0 {
								if cal := c.FnOf(m); cal != nil {
									if p2, w2 := paramDerefUnguarded(c, cal, cal.Obj.Type().(*types.Signature).Recv(), depth-1); w2 != "" {
										pos, what = p2, "nil receiver of "+funcKey(m)+": "+w2
									}
								}
							} else if !ptrRecv {
								pos, what = x.Pos(), "value-receiver method call "+exprStr(x)
							}
						}
					} else if !guard(x) {
						pos, what = x.Pos(), "field access "+exprStr(x)
					}
				} else if _, isIface := param.Type().Underlying().(*types.Interface); isIface {
					if sel := info.Selections[x]; sel != nil && sel.Kind() == types.MethodVal && !guard(x) {
						pos, what = x.Pos(), "method call "+exprStr(x)
					}
				}
			}
		case *ast.StarExpr:
			if isParam(x.X) && !guard(x) {
				pos, what = x.Pos(), "*"+ps
			}
		case *ast.CallExpr:
			if depth > 0 {
				if f := callee(info, x); f != nil {
					if cal := c.FnOf(f); cal != nil && cal.Obj != fn.Obj {
						sig := f.Type().(*types.Signature)
						for i, a := range x.Args {
							if isParam(a) && i < sig.Params().Len() && !guard(x) {
								if p2, w2 := paramDerefUnguarded(c, cal, sig.Params().At(i), depth-1); w2 != "" {
									pos, what = p2, "passed to "+funcKey(f)+": "+w2
								}
							}
						}
					}
				}
			}
		}
		return true
	})
	return pos, what
}

// ---- R5 faithful failure ----------------------------------------------------------------------------

func c13R5(c *Ctx, r *Report) {
	const rule = "C13.R5"
	r.Describe(rule, "Compile: the pipeline's error is consumed into a diagnostic; Success is !HasErrors() on every return after the pipeline ran; main exits non-zero iff !Success")
	comp := c.LookupFn(pkgCompiler, "Compile")
	run := c.LookupFn(pkgPipe, "(*Pipeline).Run")
	hasErr := c.LookupFn(pkgCtx, "(*CompilerContext).HasErrors")
	report := c.LookupFn(pkgCtx, "(*CompilerContext).ReportError")
	if !r.Anchor(rule, comp != nil && run != nil && hasErr != nil && report != nil, "compiler.Compile / Pipeline.Run / HasErrors / ReportError") {
		return
	}
	info := comp.Info()
	// (a) the result of p.Run() is not discarded and its non-nil branch reports
	consumed := false
	walkWithStack(comp.Decl.Body, func(n ast.Node, stack []ast.Node) bool {
		call, ok := n.(*ast.CallExpr)
		if !ok || !isCallTo(info, call, run.Obj) {
			return true
		}
		for i := len(stack) - 1; i >= 0; i-- {
			if ifs, ok := stack[i].(*ast.IfStmt); ok && ifs.Init != nil && containsNode(ifs.Init, call) {
				if nodeCalls(info, ifs.Body, report.Obj) != nil {
					consumed = true
				}
			}
		}
		return true
	})
	r.Check(consumed, rule, comp.Name(), "error of Pipeline.Run reported", c.pos(comp.Decl.Pos()), "Compile ignores the error returned by Pipeline.Run: a phase that fails without a diagnostic ends with exit status 0 and no output")
	// (b) every Result literal after the Run call has Success: !ctx.HasErrors()  (or false)
	var runPos token.Pos
	for _, call := range callsIn(comp.Decl.Body, false) {
		if isCallTo(info, call, run.Obj) {
			runPos = call.Pos()
		}
	}
	nRes := 0
	ast.Inspect(comp.Decl.Body, func(n ast.Node) bool {
		cl, ok := n.(*ast.CompositeLit)
		if !ok || !isNamed(info.TypeOf(cl), Mod+"/"+pkgCompiler, "Result") {
			return true
		}
		for _, el := range cl.Elts {
			kv, ok := el.(*ast.KeyValueExpr)
			if !ok {
				continue
			}
			if id, ok := kv.Key.(*ast.Ident); !ok || id.Name != "Success" {
				continue
			}
			nRes++
			if cl.Pos() < runPos {
				// before the pipeline ran: only `false` is acceptable
				v := constOf(info, kv.Value)
				r.Check(v != nil && !boolVal(v), rule, comp.Name(), fmt.Sprintf("early Result #%d Success: false", nRes), c.pos(cl.Pos()), "an early-exit result claims success")
				continue
			}
			okShape := false
			if u, ok := ast.Unparen(kv.Value).(*ast.UnaryExpr); ok && u.Op == token.NOT {
				if call, ok := ast.Unparen(u.X).(*ast.CallExpr); ok && isCallTo(info, call, hasErr.Obj) {
					okShape = true
				}
			}
			r.Check(okShape, rule, comp.Name(), fmt.Sprintf("Result #%d Success: !ctx.HasErrors()", nRes), c.pos(cl.Pos()), "Success is not derived from the error count: exit status and diagnostics can disagree")
		}
		return true
	})
	r.Floor(rule, nRes, 4, "Result literals in Compile")
	// (c) main: os.Exit(1) iff !result.Success
	mainFn := c.LookupFn(".", "main")
	if jsCompile := c.LookupFn(".", "compile"); jsCompile != nil && mainFn != nil && c.LookupFn(".", "printUsage") == nil {
		// js/wasm configuration (main_wasm.go): there is no process exit status; the embedding page gets
		// the verdict as the "success" entry of the returned object, which must be result.Success
		jinfo := jsCompile.Info()
		ok := false
		ast.Inspect(jsCompile.Decl.Body, func(n ast.Node) bool {
			if kv, isKV := n.(*ast.KeyValueExpr); isKV {
				if v := constOf(jinfo, kv.Key); v != nil && v.Kind() == constant.String && constant.StringVal(v) == "success" && strings.HasSuffix(exprStr(kv.Value), ".Success") {
					ok = true
				}
			}
			return true
		})
		r.Check(ok, rule, jsCompile.Name(), "js entry returns success: result.Success", c.pos(jsCompile.Decl.Pos()), "the browser entry point does not hand Compile's verdict to its caller")
		return
	}
	if r.Anchor(rule, mainFn != nil, "main.main") {
		minfo := mainFn.Info()
		ok := false
		ast.Inspect(mainFn.Decl.Body, func(n ast.Node) bool {
			ifs, isIf := n.(*ast.IfStmt)
			if !isIf {
				return true
			}
			u, isNot := ast.Unparen(ifs.Cond).(*ast.UnaryExpr)
			if !isNot || u.Op != token.NOT || !strings.HasSuffix(exprStr(u.X), ".Success") {
				return true
			}
			for _, cl := range callsIn(ifs.Body, false) {
				if f := callee(minfo, cl); f != nil && f.Pkg() != nil && f.Pkg().Path() == "os" && f.Name() == "Exit" && len(cl.Args) == 1 {
					if v := constOf(minfo, cl.Args[0]); v != nil && v.Kind() == constant.Int && constant.Sign(v) != 0 {
						ok = true
					}
				}
			}
			return true
		})
		r.Check(ok, rule, mainFn.Name(), "if !result.Success { os.Exit(non-zero) }", c.pos(mainFn.Decl.Pos()), "main does not turn a failed compilation into a non-zero exit status")
		// no os.Exit(0) / other exit on the failure path, no os.Exit(non-zero) outside
		ast.Inspect(mainFn.Decl.Body, func(n ast.Node) bool { return true })
	}
}

// ---- R6 artifacts ------------------------------------------------------------------------------------

func c13R6(c *Ctx, r *Report) {
	const rule = "C13.R6"
	r.Describe(rule, "no artifact after failure: gen/ removed on every exit of the native phase (unless KeepGenFiles); wasm output written only behind an error gate")
	q := c.LookupFn(pkgPipe, "(*Pipeline).runQBECodegenPhase")
	w := c.LookupFn(pkgPipe, "(*Pipeline).runWasmCodegenPhase")
	hasErr := c.LookupFn(pkgCtx, "(*CompilerContext).HasErrors")
	if !r.Anchor(rule, q != nil && w != nil && hasErr != nil, "runQBECodegenPhase / runWasmCodegenPhase / HasErrors") {
		return
	}
	isOS := func(info *types.Info, call *ast.CallExpr, name string) bool {
		f := callee(info, call)
		return f != nil && f.Pkg() != nil && f.Pkg().Path() == "os" && f.Name() == name
	}
	// native: after MkdirAll(tempDir) every exit passes RemoveAll(tempDir): a deferred RemoveAll right after, or explicit on all paths
	qinfo := q.Info()
	var mk *ast.CallExpr
	for _, call := range callsIn(q.Decl.Body, false) {
		if isOS(qinfo, call, "MkdirAll") {
			mk = call
		}
	}
	if r.Anchor(rule, mk != nil && len(mk.Args) > 0, "os.MkdirAll in runQBECodegenPhase") {
		dir := exprStr(mk.Args[0])
		deferred := false
		ast.Inspect(q.Decl.Body, func(n ast.Node) bool {
			d, ok := n.(*ast.DeferStmt)
			if !ok || d.Pos() < mk.Pos() {
				return true
			}
			if isOS(qinfo, d.Call, "RemoveAll") && len(d.Call.Args) == 1 && exprStr(d.Call.Args[0]) == dir {
				deferred = true
			}
			if fl, ok := d.Call.Fun.(*ast.FuncLit); ok {
				for _, cl := range callsIn(fl.Body, false) {
					if isOS(qinfo, cl, "RemoveAll") && len(cl.Args) == 1 && exprStr(cl.Args[0]) == dir {
						deferred = true
					}
				}
			}
			return true
		})
		if !deferred {
			// explicit removal on every exit after the mkdir
			g := c.CFG(q)
			hits := mustFlow(g, FlowSpec{
				InitTrue: true,
				AtReturn: true,
				Kill:     func(n ast.Node) bool { return containsNode(n, mk) },
				Gate: func(n ast.Node) bool {
					return nodeCallsPred(n, func(cl *ast.CallExpr) bool {
						return isOS(qinfo, cl, "RemoveAll") && len(cl.Args) == 1 && exprStr(cl.Args[0]) == dir
					}) != nil
				},
			})
			deferred = len(hits) == 0
		}
		r.Check(deferred, rule, q.Name(), "RemoveAll("+dir+") on every exit after MkdirAll", c.pos(mk.Pos()), "a failing path of the native code-generation phase leaves the "+dir+" directory (.ssa/.s/.o files) behind")
	}
	// wasm: WriteFile(outputPath) dominated by a HasErrors() gate placed after EmitProgram
	winfo := w.Info()
	emit := c.LookupFn(pkgWasm, "EmitProgram")
	g := c.CFG(w)
	hits := mustFlow(g, FlowSpec{
		Kill: func(n ast.Node) bool { return emit != nil && nodeCalls(winfo, n, emit.Obj) != nil },
		EdgeGate: func(b *cfg.Block, succ int) bool {
			cond := condOf(b)
			if cond == nil {
				return false
			}
			if cl, ok := ast.Unparen(cond).(*ast.CallExpr); ok && isCallTo(winfo, cl, hasErr.Obj) {
				return succ == 1
			}
			return false
		},
		Target: func(n ast.Node) bool {
			return nodeCallsPred(n, func(cl *ast.CallExpr) bool { return isOS(winfo, cl, "WriteFile") }) != nil
		},
	})
	r.Check(len(hits) == 0 && emit != nil, rule, w.Name(), "WriteFile only after a HasErrors() gate that follows EmitProgram", c.pos(w.Decl.Pos()),
		"the wasm generator reports unsupported constructs as diagnostics and keeps going; without an error gate between EmitProgram and WriteFile a failed compilation leaves a .wasm file")
}

// ---- R8 / R9 ---------------------------------------------------------------------------------------------

func c13R8R9(c *Ctx, r *Report) {
	const r8, r9 = "C13.R8", "C13.R9"
	r.Describe(r8, "per-token lexer work does not convert or copy the whole source")
	r.Describe(r9, "no *source.Position argument of source.NewLocation aliases a field of the lexer/parser object")
	rem := c.LookupFn(pkgLexer, "(*Lexer).remainder")
	if r.Anchor(r8, rem != nil, "Lexer.remainder") {
		info := rem.Info()
		conv := false
		ast.Inspect(rem.Decl.Body, func(n ast.Node) bool {
			call, ok := n.(*ast.CallExpr)
			if !ok || len(call.Args) != 1 {
				return true
			}
			if tv, ok := info.Types[call.Fun]; ok && tv.IsType() {
				if _, isSlice := info.TypeOf(call.Args[0]).Underlying().(*types.Slice); isSlice {
					conv = true
				}
				if b, isBasic := tv.Type.Underlying().(*types.Slice); isBasic && b != nil {
					conv = true
				}
			}
			return true
		})
		r.Check(!conv, r8, rem.Name(), "no []byte<->string conversion of the source", c.pos(rem.Decl.Pos()), "remainder() is called for every pattern at every token; converting the whole source each time makes lexing quadratic in the file size")
	}
	newLoc := c.LookupFn(pkgSource, "NewLocation")
	if !r.Anchor(r9, newLoc != nil, "source.NewLocation") {
		return
	}
	n := 0
	for _, rel := range []string{pkgLexer, pkgParserRel} {
		for _, fn := range c.AllFns(rel) {
			info := fn.Info()
			recv := fn.Obj.Type().(*types.Signature).Recv()
			for _, call := range callsIn(fn.Decl.Body, true) {
				if !isCallTo(info, call, newLoc.Obj) {
					continue
				}
				n++
				bad := ""
				for _, a := range call.Args[1:] {
					u, ok := ast.Unparen(a).(*ast.UnaryExpr)
					if !ok || u.Op != token.AND {
						continue
					}
					sel, ok := ast.Unparen(u.X).(*ast.SelectorExpr)
					if !ok {
						continue
					}
					root := rootIdent(sel)
					if root == nil {
						continue
					}
					o := info.Uses[root]
					// address of a field reached from the receiver or a pointer parameter: shared, mutable state
					isShared := recv != nil && o == recv
					if v, ok := o.(*types.Var); ok && !isShared {
						if _, isPtr := v.Type().Underlying().(*types.Pointer); isPtr {
							sig := fn.Obj.Type().(*types.Signature)
							for i := 0; i < sig.Params().Len(); i++ {
								if sig.Params().At(i) == v {
									isShared = true
								}
							}
						}
					}
					if isShared && isNamed(info.TypeOf(sel), Mod+"/"+pkgSource, "Position") {
						bad = exprStr(a)
					}
				}
				if bad != "" {
					r.Fail(r9, fn.Name(), "NewLocation(..., "+bad+")", c.pos(call.Pos()), "the location stores a pointer into the lexer/parser's own position, which keeps moving: the diagnostic is displayed at wherever scanning stopped, not at the offending text")
				}
			}
		}
	}
	if n > 0 {
		r.OK(r9, "lexer+parser", "NewLocation call sites scanned", "-", itoa(n)+" sites")
	}
	r.Floor(r9, n, 10, "NewLocation call sites in lexer/parser")
}

// C13.R3b: graph searches keep their visited set monotone. A recursive search that takes a
// `visited` map and un-marks a node when it leaves it enumerates every simple path: exponential time
// on a chain of branches (the compiler hangs on a long but ordinary function).
func c13R3b(c *Ctx, r *Report) {
	const rule = "C13.R3b"
	r.Describe(rule, "recursive graph searches never un-mark visited nodes (polynomial search)")
	n := 0
	for _, p := range c.Pkgs {
		rel := relOf(p.PkgPath)
		if !strings.HasPrefix(rel, "internal/") {
			continue
		}
		for _, fn := range c.AllFns(rel) {
			sig := fn.Obj.Type().(*types.Signature)
			var vis *types.Var
			for i := 0; i < sig.Params().Len(); i++ {
				pv := sig.Params().At(i)
				if m, ok := pv.Type().Underlying().(*types.Map); ok {
					if b, ok := m.Elem().Underlying().(*types.Basic); ok && b.Kind() == types.Bool {
						vis = pv
					}
				}
			}
			if vis == nil {
				continue
			}
			info := fn.Info()
			recursive := false
			for _, cl := range callsIn(fn.Decl.Body, true) {
				if f := callee(info, cl); f != nil && f == fn.Obj {
					recursive = true
				}
			}
			if !recursive {
				continue
			}
			n++
			bad := token.NoPos
			ast.Inspect(fn.Decl.Body, func(nd ast.Node) bool {
				switch x := nd.(type) {
				case *ast.AssignStmt:
					for i, l := range x.Lhs {
						if ix, ok := ast.Unparen(l).(*ast.IndexExpr); ok && usesVar(info, ix.X, vis) && i < len(x.Rhs) {
							if v := constOf(info, x.Rhs[i]); v == nil || !boolVal(v) {
								bad = x.Pos()
							}
						}
					}
				case *ast.CallExpr:
					if id, ok := ast.Unparen(x.Fun).(*ast.Ident); ok && id.Name == "delete" && len(x.Args) == 2 && usesVar(info, x.Args[0], vis) {
						bad = x.Pos()
					}
				}
				return true
			})
			r.Check(!bad.IsValid(), rule, fn.Name(), "visited set "+vis.Name()+" only grows", c.pos(fn.Decl.Pos()),
				"the search removes nodes from its visited set when backtracking ("+c.pos(bad)+"): it then explores every simple path, which is exponential in the number of sequential branches")
		}
	}
	r.Floor(rule, n, 2, "recursive searches with a visited set")
}
