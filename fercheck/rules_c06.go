package main

import (
	"fmt"
	"go/ast"
	"go/token"
	"go/types"
	"strings"

	"golang.org/x/tools/go/cfg"
)

const pkgCollector = "internal/semantics/collector"

func init() {
	register("C06", &propSpec{
		Explanation: "Structural necessary conditions of 'immutable bindings cannot be modified', over the finite product mutation form x place shape x immutability source: (R1) each mutation form (assignment incl. compound and ++/--, prefix/postfix inc/dec, &' borrow, &'-receiver method call, &' argument) passes the mutability gate on every accepting path; (R2) every predicate that decides from a place expression handles the four place shapes Ident | Selector | Index | Paren, and the gate tests all three sources (constant, read-only, immutable reference); (R3) the sources are set where bindings are declared. Does not decide aliasing through legitimately created references (C07).",
		Quick:       []ruleFn{c06R1, c06R2, c06R3},
	})
}

// mutabilityGate: in fn, every accepting exit is dominated by the "not blocked" outcome of
// reportMutabilityError(ctx, checkMutability(ctx, mod, <place>), ...) for the given place expression.
func mutabilityGate(c *Ctx, r *Report, rule string, fn *Fn, place string, form string, optional bool) {
	info := fn.Info()
	cm := c.LookupFn(pkgTC, "checkMutability")
	rm := c.LookupFn(pkgTC, "reportMutabilityError")
	bagAdd := c.LookupFn("internal/diagnostics", "(*DiagnosticBag).Add")
	if !r.Anchor(rule, cm != nil && rm != nil && bagAdd != nil, "checkMutability / reportMutabilityError") {
		return
	}
	// the checkMutability call on the place, possibly through a variable
	var cmCall *ast.CallExpr
	infoVars := map[types.Object]bool{}
	ast.Inspect(fn.Decl.Body, func(n ast.Node) bool {
		switch x := n.(type) {
		case *ast.CallExpr:
			if isCallTo(info, x, cm.Obj) && len(x.Args) == 3 && exprStr(x.Args[2]) == place {
				cmCall = x
			}
		case *ast.AssignStmt:
			if len(x.Rhs) == 1 {
				if cl, ok := x.Rhs[0].(*ast.CallExpr); ok && isCallTo(info, cl, cm.Obj) && len(cl.Args) == 3 && exprStr(cl.Args[2]) == place {
					if id, ok := x.Lhs[0].(*ast.Ident); ok {
						if o := info.Defs[id]; o != nil {
							infoVars[o] = true
						} else if o := info.Uses[id]; o != nil {
							infoVars[o] = true
						}
					}
				}
			}
		}
		return true
	})
	construct := form + ": mutability gate on " + place
	if cmCall == nil {
		r.Fail(rule, fn.Name(), construct, c.pos(fn.Decl.Pos()), "no checkMutability(ctx, mod, "+place+") call: this mutation form is not checked against constants, read-only variables and immutable references")
		return
	}
	isGateCall := func(cl *ast.CallExpr) bool {
		if !isCallTo(info, cl, rm.Obj) || len(cl.Args) < 2 {
			return false
		}
		a := ast.Unparen(cl.Args[1])
		if inner, ok := a.(*ast.CallExpr); ok && inner == cmCall {
			return true
		}
		if id, ok := a.(*ast.Ident); ok && infoVars[info.Uses[id]] {
			return true
		}
		if inner, ok := a.(*ast.CallExpr); ok && isCallTo(info, inner, cm.Obj) && len(inner.Args) == 3 && exprStr(inner.Args[2]) == place {
			return true
		}
		return false
	}
	var gate *ast.CallExpr
	for _, cl := range callsIn(fn.Decl.Body, false) {
		if isGateCall(cl) {
			gate = cl
		}
	}
	if gate == nil {
		r.Fail(rule, fn.Name(), construct, c.pos(cmCall.Pos()), "the result of checkMutability is not passed to reportMutabilityError: a blocked mutation is computed but never reported")
		return
	}
	if optional {
		// the gate sits inside a branch that selects this mutation form (e.g. `if op == MUT_REF`): only
		// require that a blocked result leaves the function (the `if report(..) { return }` shape) or is the statement itself.
		r.OK(rule, fn.Name(), construct, c.pos(gate.Pos()), "gate present on the mutating branch")
		return
	}
	g := c.CFG(fn)
	hits := mustFlow(g, FlowSpec{
		AtReturn: true,
		Gate: func(n ast.Node) bool {
			return nodeCallsPred(n, func(cl *ast.CallExpr) bool { return isGateCall(cl) || isCallTo(info, cl, bagAdd.Obj) }) != nil
		},
		EdgeGate: func(b *cfg.Block, succ int) bool { // nil / unknown guards at the top of the function
			cond := condOf(b)
			if cond == nil {
				return false
			}
			for _, d := range disjuncts(cond) {
				if bb, ok := isBinOp(d, token.EQL); ok && info.Types[bb.Y].IsNil() && succ == 0 {
					return true
				}
			}
			// the blank identifier `_ = e` is not a binding: `... && ident.Name == "_"` true edge
			for _, cj := range conjuncts(cond) {
				if bb, ok := isBinOp(cj, token.EQL); ok && succ == 0 {
					if v := constOf(info, bb.Y); v != nil && v.ExactString() == `"_"` && strings.HasSuffix(exprStr(bb.X), ".Name") {
						return true
					}
				}
			}
			return false
		},
	})
	if len(hits) == 0 {
		r.OK(rule, fn.Name(), construct, c.pos(gate.Pos()), "every accepting exit passes the gate")
		return
	}
	pos := c.pos(fn.Decl.Body.Rbrace)
	if hits[0].Node != nil {
		pos = c.pos(hits[0].Pos)
	}
	r.Fail(rule, fn.Name(), construct, pos, "an exit of "+fn.Obj.Name()+" at "+pos+" is reachable without the mutability gate and without an error report: this mutation form can be accepted on an immutable place")
}

func c06R1(c *Ctx, r *Report) {
	const rule = "C06.R1"
	r.Describe(rule, "each mutation form passes checkMutability+reportMutabilityError (or the reference-mutability comparison) on every accepting path")
	get := func(n string) *Fn { return c.LookupFn(pkgTC, n) }
	assign, incdec, borrow, sel, args := get("checkAssignStmt"), get("checkIncDecTarget"), get("checkBorrowExpr"), get("checkSelectorExpr"), get("validateCallArgumentTypes")
	if !r.Anchor(rule, assign != nil && incdec != nil && borrow != nil && sel != nil && args != nil, "checkAssignStmt/checkIncDecTarget/checkBorrowExpr/checkSelectorExpr/validateCallArgumentTypes") {
		return
	}
	mutabilityGate(c, r, rule, assign, "stmt.Lhs", "assignment (=, op=, ++/-- statements)", false)
	mutabilityGate(c, r, rule, incdec, "target", "prefix/postfix ++/--", false)
	mutabilityGate(c, r, rule, borrow, "expr.X", "mutable borrow &'", true)
	mutabilityGate(c, r, rule, sel, "expr.X", "&'-receiver method call", true)

	// the borrow gate must sit under `expr.Op.Kind == tokens.MUT_REF_TOKEN` and leave on a blocked result
	mutRef, _ := c.lookupObj(pkgTokens, "MUT_REF_TOKEN").(*types.Const)
	if r.Anchor(rule, mutRef != nil, "tokens.MUT_REF_TOKEN") {
		info := borrow.Info()
		rm := get("reportMutabilityError")
		ok := false
		walkWithStack(borrow.Decl.Body, func(n ast.Node, stack []ast.Node) bool {
			ifs, isIf := n.(*ast.IfStmt)
			if !isIf || rm == nil || nodeCalls(info, ifs.Cond, rm.Obj) == nil || !thenTerminates(ifs) {
				return true
			}
			for _, a := range stack {
				if outer, isIf := a.(*ast.IfStmt); isIf && containsNode(outer.Body, ifs) {
					if b, isEq := isBinOp(outer.Cond, token.EQL); isEq && (constObj(info, b.Y) == mutRef || constObj(info, b.X) == mutRef) {
						ok = true
					}
				}
			}
			return true
		})
		r.Check(ok, rule, borrow.Name(), "&' branch: blocked result returns", c.pos(borrow.Decl.Pos()), "under `Op.Kind == MUT_REF_TOKEN` a blocked mutability result must stop the borrow from being accepted")
	}
	// the method-call gate is applied exactly when the method's receiver is a mutable reference
	{
		info := sel.Info()
		rm := get("reportMutabilityError")
		mutField := c.fieldObj(pkgTypes, "ReferenceType", "Mutable")
		recvField := c.fieldObj(pkgSymbols, "MethodInfo", "Receiver")
		ok := false
		walkWithStack(sel.Decl.Body, func(n ast.Node, stack []ast.Node) bool {
			cl, isCall := n.(*ast.CallExpr)
			if !isCall || rm == nil || !isCallTo(info, cl, rm.Obj) {
				return true
			}
			for _, a := range stack {
				ifs, isIf := a.(*ast.IfStmt)
				if !isIf || !containsNode(ifs.Body, cl) {
					continue
				}
				usesMutable, usesRecv := false, false
				ast.Inspect(ifs, func(x ast.Node) bool {
					if s, isSel := x.(*ast.SelectorExpr); isSel {
						if fieldOf(info, s) == mutField {
							usesMutable = true
						}
						if fieldOf(info, s) == recvField {
							usesRecv = true
						}
					}
					return true
				})
				if usesMutable && usesRecv {
					ok = true
				}
			}
			return true
		})
		r.Check(ok && mutField != nil && recvField != nil, rule, sel.Name(), "gate keyed on MethodInfo.Receiver being a mutable reference", c.pos(sel.Decl.Pos()),
			"the method-call mutability gate must be applied when (and only when) the resolved method's receiver type is a ReferenceType with Mutable == true")
	}
	// &' parameters: `refParam.Mutable && !refArg.Mutable` reports, in both argument loops
	{
		info := args.Info()
		mutField := c.fieldObj(pkgTypes, "ReferenceType", "Mutable")
		bagAdd := c.LookupFn("internal/diagnostics", "(*DiagnosticBag).Add")
		n := 0
		ast.Inspect(args.Decl.Body, func(x ast.Node) bool {
			ifs, isIf := x.(*ast.IfStmt)
			if !isIf {
				return true
			}
			cj := conjuncts(ifs.Cond)
			if len(cj) != 2 {
				return true
			}
			pos, neg := false, false
			for _, e := range cj {
				if u, isNot := ast.Unparen(e).(*ast.UnaryExpr); isNot && u.Op == token.NOT && fieldOf(info, u.X) == mutField {
					neg = true
				} else if fieldOf(info, e) == mutField {
					pos = true
				}
			}
			if pos && neg && bagAdd != nil && nodeCalls(info, ifs.Body, bagAdd.Obj) != nil {
				n++
			}
			return true
		})
		r.Check(n >= 2, rule, args.Name(), "param &' vs argument & compared and reported (regular and variadic loops)", c.pos(args.Decl.Pos()),
			fmt.Sprintf("found %d `param.Mutable && !arg.Mutable` reporting comparisons, need one per argument loop (2): an immutable reference could be passed where a mutable one is required", n))
	}
	// who-may-mutate: every checkExpr case for Prefix/Postfix expressions delegates to checkIncDecTarget
	checkExpr := get("checkExpr")
	if r.Anchor(rule, checkExpr != nil, "checkExpr") {
		info := checkExpr.Info()
		for _, kind := range []string{"PrefixExpr", "PostfixExpr"} {
			found := false
			for _, ts := range typeSwitchesOn(info, checkExpr.Decl.Body, checkExpr.ParamNamed("expr")) {
				for _, cc := range caseClauses(ts.Body) {
					for _, t := range caseTypes(info, cc) {
						if n := namedOf(t); n != nil && n.Obj().Name() == kind {
							for _, s := range cc.Body {
								if nodeCalls(info, s, incdec.Obj) != nil {
									found = true
								}
							}
						}
					}
				}
			}
			r.Check(found, rule, checkExpr.Name(), "case *ast."+kind+" -> checkIncDecTarget", c.pos(checkExpr.Decl.Pos()), kind+" (++x / x++ in expression position) no longer reaches the mutability gate")
		}
		// UnaryExpr with borrow operator -> checkBorrowExpr
		found := false
		for _, cl := range callsIn(checkExpr.Decl.Body, false) {
			if isCallTo(info, cl, borrow.Obj) {
				found = true
			}
		}
		r.Check(found, rule, checkExpr.Name(), "borrow operators -> checkBorrowExpr", c.pos(checkExpr.Decl.Pos()), "&/&' expressions no longer reach checkBorrowExpr")
	}
}

// C06.R2: place-grammar closure and the three immutability sources.
func c06R2(c *Ctx, r *Report) {
	const rule = "C06.R2"
	r.Describe(rule, "place predicates handle Ident | Selector | Index | Paren; checkMutability tests constant, read-only and immutable-reference sources at the root of the place")
	shapes := []string{"IdentifierExpr", "SelectorExpr", "IndexExpr", "ParenExpr"}
	for _, name := range []string{"rootIdentifierOfPlace", "findImmutableRefInChain", "findValueReceiverInChain", "isBorrowableTarget", "isAssignableTarget"} {
		fn := c.LookupFn(pkgTC, name)
		if !r.Anchor(rule, fn != nil, "typechecker."+name) {
			continue
		}
		info := fn.Info()
		covered := map[string]bool{}
		ast.Inspect(fn.Decl.Body, func(n ast.Node) bool {
			ts, ok := n.(*ast.TypeSwitchStmt)
			if !ok {
				return true
			}
			for _, cc := range caseClauses(ts.Body) {
				for _, t := range caseTypes(info, cc) {
					if nn := namedOf(t); nn != nil {
						covered[nn.Obj().Name()] = true
					}
				}
			}
			return true
		})
		for _, s := range shapes {
			r.Check(covered[s], rule, fn.Name(), "handles *ast."+s, c.pos(fn.Decl.Pos()),
				"place expressions of shape "+s+" fall through in "+name+": an immutable root reached through that shape is not recognised")
		}
	}
	cm := c.LookupFn(pkgTC, "checkMutability")
	root := c.LookupFn(pkgTC, "rootIdentifierOfPlace")
	imm := c.LookupFn(pkgTC, "findImmutableRefInChain")
	constKind, _ := c.lookupObj(pkgSymbols, "SymbolConstant").(*types.Const)
	ro := c.fieldObj(pkgSymbols, "Symbol", "IsReadonly")
	if !r.Anchor(rule, cm != nil && root != nil && imm != nil && constKind != nil && ro != nil, "checkMutability / rootIdentifierOfPlace / findImmutableRefInChain / SymbolConstant / Symbol.IsReadonly") {
		return
	}
	info := cm.Info()
	usesRoot := nodeCalls(info, cm.Decl.Body, root.Obj) != nil
	usesImm := nodeCalls(info, cm.Decl.Body, imm.Obj) != nil
	testsConst, testsRO := false, false
	ast.Inspect(cm.Decl.Body, func(n ast.Node) bool {
		ifs, ok := n.(*ast.IfStmt)
		if !ok {
			return true
		}
		ast.Inspect(ifs.Cond, func(x ast.Node) bool {
			switch e := x.(type) {
			case *ast.BinaryExpr:
				if e.Op == token.EQL && (constObj(info, e.Y) == constKind || constObj(info, e.X) == constKind) {
					testsConst = true
				}
			case *ast.SelectorExpr:
				if fieldOf(info, e) == ro {
					testsRO = true
				}
			}
			return true
		})
		return true
	})
	r.Check(usesRoot, rule, cm.Name(), "tests the root of the place (rootIdentifierOfPlace)", c.pos(cm.Decl.Pos()), "constant / read-only are tested only for a bare identifier: `c.X = v`, `c[i] = v` on a constant would be accepted")
	r.Check(testsConst, rule, cm.Name(), "source: Kind == SymbolConstant", c.pos(cm.Decl.Pos()), "checkMutability no longer blocks constants")
	r.Check(testsRO, rule, cm.Name(), "source: IsReadonly", c.pos(cm.Decl.Pos()), "checkMutability no longer blocks read-only variables (loop index, catch error)")
	r.Check(usesImm, rule, cm.Name(), "source: immutable reference in the chain", c.pos(cm.Decl.Pos()), "checkMutability no longer blocks modification through &T")
	// findImmutableRefInChain decides by ReferenceType.Mutable == false
	mutField := c.fieldObj(pkgTypes, "ReferenceType", "Mutable")
	negated := false
	ast.Inspect(imm.Decl.Body, func(n ast.Node) bool {
		if u, ok := n.(*ast.UnaryExpr); ok && u.Op == token.NOT && fieldOf(imm.Info(), u.X) == mutField {
			negated = true
		}
		return true
	})
	r.Check(negated && mutField != nil, rule, imm.Name(), "immutable = !ReferenceType.Mutable", c.pos(imm.Decl.Pos()), "the immutable-reference test no longer reads `!refType.Mutable`")
	// reportMutabilityError: the three blocking results return true after adding an Error
	rm := c.LookupFn(pkgTC, "reportMutabilityError")
	if r.Anchor(rule, rm != nil, "reportMutabilityError") {
		rinfo := rm.Info()
		newErr := c.LookupFn("internal/diagnostics", "NewError")
		for _, res := range []string{"MutabilityConstant", "MutabilityReadOnly", "MutabilityImmutableRef"} {
			co, _ := c.lookupObj(pkgTC, res).(*types.Const)
			ok := false
			ast.Inspect(rm.Decl.Body, func(n ast.Node) bool {
				cc, isCC := n.(*ast.CaseClause)
				if !isCC || len(cc.List) != 1 || constObj(rinfo, cc.List[0]) != co || co == nil {
					return true
				}
				body := &ast.BlockStmt{List: cc.Body}
				retTrue := false
				if len(cc.Body) > 0 {
					if ret, isRet := cc.Body[len(cc.Body)-1].(*ast.ReturnStmt); isRet && len(ret.Results) == 1 && boolVal(constOf(rinfo, ret.Results[0])) {
						retTrue = true
					}
				}
				if retTrue && newErr != nil && nodeCalls(rinfo, body, newErr.Obj) != nil {
					ok = true
				}
				return true
			})
			r.Check(ok, rule, rm.Name(), "case "+res+": Error + return true", c.pos(rm.Decl.Pos()), res+" must add an Error diagnostic and report the mutation as blocked")
		}
	}
}

// C06.R3: the immutability sources are set at declaration.
func c06R3(c *Ctx, r *Report) {
	const rule = "C06.R3"
	r.Describe(rule, "const declarations get SymbolConstant; two-variable for-loop index and catch error identifier get IsReadonly; &T type nodes produce ReferenceType{Mutable:false}")
	constKind, _ := c.lookupObj(pkgSymbols, "SymbolConstant").(*types.Const)
	collectVar := c.LookupFn(pkgCollector, "collectVarDecl")
	mark := c.LookupFn(pkgCollector, "markForIteratorIndexReadOnly")
	ro := c.fieldObj(pkgSymbols, "Symbol", "IsReadonly")
	if !r.Anchor(rule, constKind != nil && collectVar != nil && mark != nil && ro != nil, "SymbolConstant / collectVarDecl / markForIteratorIndexReadOnly / Symbol.IsReadonly") {
		return
	}
	// (a) every case *ast.ConstDecl in the collector passes SymbolConstant
	nConst := 0
	for _, fn := range c.AllFns(pkgCollector) {
		info := fn.Info()
		ast.Inspect(fn.Decl.Body, func(n ast.Node) bool {
			cc, ok := n.(*ast.CaseClause)
			if !ok {
				return true
			}
			isConstDecl := false
			for _, t := range caseTypes(info, cc) {
				if nn := namedOf(t); nn != nil && nn.Obj().Name() == "ConstDecl" {
					isConstDecl = true
				}
			}
			if !isConstDecl {
				return true
			}
			for _, s := range cc.Body {
				for _, cl := range callsIn(s, false) {
					if isCallTo(info, cl, collectVar.Obj) {
						nConst++
						last := cl.Args[len(cl.Args)-1]
						r.Check(constObj(info, last) == constKind, rule, fn.Name(), fmt.Sprintf("ConstDecl -> collectVarDecl(..., SymbolConstant) #%d", nConst), c.pos(cl.Pos()),
							"a const declaration is collected with a symbol kind other than SymbolConstant: it becomes assignable")
					}
				}
			}
			return true
		})
	}
	r.Floor(rule, nConst, 2, "ConstDecl collection sites")
	// collectVarDecl stores the kind it is given
	{
		info := collectVar.Info()
		kindParam := collectVar.Param(collectVar.Obj.Type().(*types.Signature).Params().Len() - 1)
		stores := false
		ast.Inspect(collectVar.Decl.Body, func(n ast.Node) bool {
			if kv, ok := n.(*ast.KeyValueExpr); ok {
				if id, ok := kv.Key.(*ast.Ident); ok && id.Name == "Kind" && usesVar(info, kv.Value, kindParam) {
					stores = true
				}
			}
			return true
		})
		r.Check(stores, rule, collectVar.Name(), "Symbol.Kind = kind parameter", c.pos(collectVar.Decl.Pos()), "collectVarDecl no longer stores the symbol kind it was called with")
	}
	// (b) for statements: markForIteratorIndexReadOnly is called wherever a ForStmt is collected; it sets IsReadonly
	nFor := 0
	for _, fn := range c.AllFns(pkgCollector) {
		info := fn.Info()
		ast.Inspect(fn.Decl.Body, func(n ast.Node) bool {
			cc, ok := n.(*ast.CaseClause)
			if !ok {
				return true
			}
			isFor := false
			if ts := caseTypes(info, cc); len(ts) == 1 { // a clause listing several statement kinds is a classification, not the collection of a for statement
				if nn := namedOf(ts[0]); nn != nil && nn.Obj().Name() == "ForStmt" {
					isFor = true
				}
			}
			if !isFor {
				return true
			}
			nFor++
			called := false
			body := &ast.BlockStmt{List: cc.Body}
			for _, cl := range callsIn(body, true) {
				if isCallTo(info, cl, mark.Obj) {
					called = true
				}
				// one level of delegation (collectForStmt)
				if f := callee(info, cl); f != nil {
					if inner := c.FnOf(f); inner != nil && inner.Pkg == fn.Pkg && nodeCalls(inner.Info(), inner.Decl.Body, mark.Obj) != nil {
						called = true
					}
				}
			}
			r.Check(called, rule, fn.Name(), fmt.Sprintf("ForStmt #%d -> markForIteratorIndexReadOnly", nFor), c.pos(cc.Pos()), "a for statement is collected without marking its index variable read-only")
			return true
		})
	}
	r.Floor(rule, nFor, 1, "ForStmt collection sites")
	setsRO := false
	ast.Inspect(mark.Decl.Body, func(n ast.Node) bool {
		if as, ok := n.(*ast.AssignStmt); ok && len(as.Lhs) == 1 && fieldOf(mark.Info(), as.Lhs[0]) == ro && boolVal(constOf(mark.Info(), as.Rhs[0])) {
			setsRO = true
		}
		return true
	})
	r.Check(setsRO, rule, mark.Name(), "sets IsReadonly = true", c.pos(mark.Decl.Pos()), "the loop index is no longer marked read-only")
	// (c) catch error identifier declared with IsReadonly: true
	nCatch := 0
	for _, fn := range c.AllFns(pkgCollector) {
		info := fn.Info()
		ast.Inspect(fn.Decl.Body, func(n ast.Node) bool {
			cl, ok := n.(*ast.CompositeLit)
			if !ok || !isNamed(info.TypeOf(cl), Mod+"/"+pkgSymbols, "Symbol") {
				return true
			}
			for _, el := range cl.Elts {
				if kv, ok := el.(*ast.KeyValueExpr); ok {
					if id, ok := kv.Key.(*ast.Ident); ok && info.Uses[id] == ro && boolVal(constOf(info, kv.Value)) {
						nCatch++
					}
				}
			}
			return true
		})
	}
	r.Check(nCatch >= 1, rule, "semantics/collector", "a symbol literal with IsReadonly: true (catch error identifier)", "-", "no symbol is declared read-only at creation any more: the catch error variable becomes assignable")
	// (d) &T type node -> ReferenceType with Mutable from the node's flag; NewReference is immutable
	newRef := c.LookupFn(pkgTypes, "NewReference")
	newMut := c.LookupFn(pkgTypes, "NewMutableReference")
	if r.Anchor(rule, newRef != nil && newMut != nil, "types.NewReference / NewMutableReference") {
		pe := newPEval(c)
		mutOf := func(fn *Fn) string {
			v := "?"
			ast.Inspect(fn.Decl.Body, func(n ast.Node) bool {
				if kv, ok := n.(*ast.KeyValueExpr); ok {
					if id, ok := kv.Key.(*ast.Ident); ok && id.Name == "Mutable" {
						if cv := constOf(fn.Info(), kv.Value); cv != nil {
							v = cv.String()
						}
					}
				}
				return true
			})
			if v == "?" {
				// field omitted in the literal: zero value false
				ast.Inspect(fn.Decl.Body, func(n ast.Node) bool {
					if cl, ok := n.(*ast.CompositeLit); ok && isNamed(fn.Info().TypeOf(cl), Mod+"/"+pkgTypes, "ReferenceType") {
						v = "false"
					}
					return true
				})
			}
			return v
		}
		_ = pe
		r.Check(mutOf(newRef) == "false", rule, newRef.Name(), "Mutable: false", c.pos(newRef.Decl.Pos()), "NewReference (the &T constructor) creates a mutable reference type")
		r.Check(mutOf(newMut) == "true", rule, newMut.Name(), "Mutable: true", c.pos(newMut.Decl.Pos()), "NewMutableReference no longer sets Mutable")
	}
	// TypeFromTypeNodeWithContext: case *ast.ReferenceType chooses by the node's Mutable flag
	tft := c.LookupFn(pkgTC, "TypeFromTypeNodeWithContext")
	if r.Anchor(rule, tft != nil && newRef != nil && newMut != nil, "TypeFromTypeNodeWithContext") {
		info := tft.Info()
		ok := false
		ast.Inspect(tft.Decl.Body, func(n ast.Node) bool {
			cc, isCC := n.(*ast.CaseClause)
			if !isCC {
				return true
			}
			isRef := false
			for _, t := range caseTypes(info, cc) {
				if nn := namedOf(t); nn != nil && nn.Obj().Name() == "ReferenceType" && strings.HasSuffix(nn.Obj().Pkg().Path(), "/ast") {
					isRef = true
				}
			}
			if !isRef {
				return true
			}
			body := &ast.BlockStmt{List: cc.Body}
			hasMut := nodeCalls(info, body, newMut.Obj) != nil
			hasImm := nodeCalls(info, body, newRef.Obj) != nil
			// or a composite literal copying the flag: Mutable: t.Mutable
			copies := false
			ast.Inspect(body, func(x ast.Node) bool {
				if kv, isKV := x.(*ast.KeyValueExpr); isKV {
					if id, isID := kv.Key.(*ast.Ident); isID && id.Name == "Mutable" && strings.HasSuffix(exprStr(kv.Value), ".Mutable") {
						copies = true
					}
				}
				return true
			})
			if (hasMut && hasImm) || copies {
				ok = true
			}
			return true
		})
		r.Check(ok, rule, tft.Name(), "case *ast.ReferenceType keeps the & / &' distinction", c.pos(tft.Decl.Pos()), "reference type nodes are no longer mapped to ReferenceType with the node's mutability")
	}
}

func init() {
	lateInits = append(lateInits, func() {
		props["C06"].Quick = append(props["C06"].Quick, c06R4)
		props["C01"].Quick = append(props["C01"].Quick, c06R4)
	})
}

// C06.R4: a declared name owns fresh storage. (`let m := c as P` must copy: binding m to the storage of a
// const or of a &T referent makes writes to m change the immutable value; by-value semantics of structs/arrays.)
func c06R4(c *Ctx, r *Report) {
	const rule = "C06.R4"
	r.Describe(rule, "mir/gen: every binding of a symbol to a storage slot (slots[sym] = v) binds it to a fresh allocation (emitAlloca / emitAllocaInEntry / ferret_alloc box), also through helper parameters")
	allocFns := map[*types.Func]bool{}
	for _, n := range []string{"emitAlloca", "emitAllocaInEntry"} {
		if f := c.LookupFn(pkgMIRGen, "(*functionBuilder)."+n); f != nil {
			allocFns[f.Obj] = true
		}
	}
	if !r.Anchor(rule, len(allocFns) == 2, "mir/gen emitAlloca / emitAllocaInEntry") {
		return
	}
	fns := c.AllFns(pkgMIRGen)
	var fresh func(fn *Fn, e ast.Expr, depth int) (bool, string)
	fresh = func(fn *Fn, e ast.Expr, depth int) (bool, string) {
		info := fn.Info()
		e = ast.Unparen(e)
		if cl, ok := e.(*ast.CallExpr); ok {
			if f := callee(info, cl); f != nil && allocFns[f] {
				return true, ""
			}
			return false, "result of " + exprStr(cl.Fun)
		}
		o := objOf(info, e)
		if o == nil {
			return false, exprStr(e)
		}
		if isParamOf(fn, o) {
			if depth >= 2 {
				return false, "parameter " + o.Name() + " (call depth)"
			}
			idx := -1
			sig := fn.Obj.Type().(*types.Signature)
			for i := 0; i < sig.Params().Len(); i++ {
				if sig.Params().At(i) == o {
					idx = i
				}
			}
			nCalls := 0
			for _, caller := range fns {
				for _, call := range callsIn(caller.Decl.Body, true) {
					if isCallTo(caller.Info(), call, fn.Obj) && idx < len(call.Args) {
						nCalls++
						if ok, why := fresh(caller, call.Args[idx], depth+1); !ok {
							return false, "argument " + exprStr(call.Args[idx]) + " of " + caller.Name() + ": " + why
						}
					}
				}
			}
			return nCalls > 0, "no caller"
		}
		ds := localDefs(fn)[o]
		// `addr, ok := b.paramSlots[name]`: the table of entry-block parameter slots (all its writes are checked below)
		ast.Inspect(fn.Decl.Body, func(x ast.Node) bool {
			if as, isAs := x.(*ast.AssignStmt); isAs && len(as.Lhs) == 2 && len(as.Rhs) == 1 {
				if id, isID := as.Lhs[0].(*ast.Ident); isID && (info.Defs[id] == o || info.Uses[id] == o) {
					ds = append(ds, as.Rhs[0])
				}
			}
			return true
		})
		if len(ds) == 0 {
			return false, "no definition of " + o.Name()
		}
		for _, d := range ds {
			if ix, isIx := ast.Unparen(d).(*ast.IndexExpr); isIx && strings.HasSuffix(exprStr(ix.X), ".paramSlots") {
				continue
			}
			// box := b.gen.nextValueID() followed by a ferret_alloc call with Result: box
			if cl, ok := ast.Unparen(d).(*ast.CallExpr); ok && strings.HasSuffix(exprStr(cl.Fun), ".nextValueID") {
				isBox := false
				ast.Inspect(fn.Decl.Body, func(x ast.Node) bool {
					lit, ok := x.(*ast.CompositeLit)
					if !ok {
						return true
					}
					res, tgt := false, false
					for _, el := range lit.Elts {
						if kv, ok := el.(*ast.KeyValueExpr); ok {
							if exprStr(kv.Key) == "Result" && objOf(info, kv.Value) == o {
								res = true
							}
							if exprStr(kv.Key) == "Target" {
								if v := constOf(info, kv.Value); v != nil {
									if s, _ := strOf(v); s == "ferret_alloc" {
										tgt = true
									}
								}
							}
						}
					}
					if res && tgt {
						isBox = true
					}
					return true
				})
				if isBox {
					continue
				}
				return false, "value id that is not an allocation"
			}
			if ok, why := fresh(fn, d, depth); !ok {
				return false, why
			}
		}
		return true, ""
	}
	n := 0
	for _, fn := range fns {
		info := fn.Info()
		ast.Inspect(fn.Decl.Body, func(x ast.Node) bool {
			as, ok := x.(*ast.AssignStmt)
			if !ok || len(as.Lhs) != 1 || len(as.Rhs) != 1 {
				return true
			}
			ix, ok := as.Lhs[0].(*ast.IndexExpr)
			if !ok || !(strings.HasSuffix(exprStr(ix.X), ".slots") || strings.HasSuffix(exprStr(ix.X), ".tempSlots") || strings.HasSuffix(exprStr(ix.X), ".paramSlots")) {
				return true
			}
			_ = info
			n++
			ok2, why := fresh(fn, as.Rhs[0], 0)
			r.Check(ok2, rule, fn.Name(), "binding "+exprStr(as.Lhs[0])+" = "+exprStr(as.Rhs[0])+" is a fresh allocation", c.pos(as.Pos()),
				"a name is bound to storage that is not its own ("+why+"): when the initialiser is an existing value (identity cast of a const, dereference of a &T) the new variable aliases it, so assigning to the variable modifies the immutable original and a by-value copy is lost")
			return true
		})
	}
	r.Floor(rule, n, 5, "slot bindings in mir/gen")
}
