package main

import (
	"go/ast"
	"go/token"
	"go/types"
	"strings"

	"golang.org/x/tools/go/callgraph"
	"golang.org/x/tools/go/callgraph/cha"
	"golang.org/x/tools/go/callgraph/vta"
	"golang.org/x/tools/go/ssa"
	"golang.org/x/tools/go/ssa/ssautil"
)

// A5: call graph (CHA refined by VTA) and the concurrent region.

func (c *Ctx) CallGraph() *callgraph.Graph {
	if g, ok := c.cache["callgraph"]; ok {
		return g.(*callgraph.Graph)
	}
	prog := c.SSA()
	fns := ssautil.AllFunctions(prog)
	g := vta.CallGraph(fns, cha.CallGraph(prog))
	c.cache["callgraph"] = g
	return g
}

// SSAFunc returns the SSA function of a source function.
func (c *Ctx) SSAFunc(fn *Fn) *ssa.Function {
	prog := c.SSA()
	return prog.FuncValue(fn.Obj)
}

func inModule(f *ssa.Function) bool {
	if f == nil {
		return false
	}
	p := f.Pkg
	if p == nil && f.Parent() != nil {
		return inModule(f.Parent())
	}
	if p == nil {
		if o := f.Origin(); o != nil && o != f {
			return inModule(o)
		}
		return false
	}
	return p.Pkg.Path() == Mod || strings.HasPrefix(p.Pkg.Path(), Mod+"/")
}

// reachable returns the module-local functions reachable from roots through the call graph
// (calls through functions outside the module are followed only via their callbacks as VTA resolves them).
func (c *Ctx) reachable(roots ...*ssa.Function) map[*ssa.Function]bool {
	g := c.CallGraph()
	seen := map[*ssa.Function]bool{}
	var stack []*ssa.Function
	for _, r := range roots {
		if r != nil && !seen[r] {
			seen[r] = true
			stack = append(stack, r)
		}
	}
	for len(stack) > 0 {
		f := stack[len(stack)-1]
		stack = stack[:len(stack)-1]
		n := g.Nodes[f]
		if n == nil {
			continue
		}
		for _, e := range n.Out {
			cal := e.Callee.Func
			if cal == nil || seen[cal] {
				continue
			}
			// js/wasm configuration: syscall/js dispatches registered callbacks (ferretCompile) from the
			// browser's event loop. VTA sees that dispatch as a call made by whoever touches syscall/js
			// (e.g. file access from a parser goroutine); it is not a call on that goroutine's stack.
			if cal.Pkg != nil && cal.Pkg.Pkg != nil && cal.Pkg.Pkg.Path() == "syscall/js" {
				continue
			}
			seen[cal] = true
			stack = append(stack, cal)
		}
		// anonymous functions defined inside are considered reachable when referenced
		for _, an := range f.AnonFuncs {
			if !seen[an] {
				seen[an] = true
				stack = append(stack, an)
			}
		}
	}
	return seen
}

// goRoots finds every `go` statement in the module and returns the SSA functions started.
type goSite struct {
	In     *ssa.Function
	Instr  *ssa.Go
	Target *ssa.Function
}

func (c *Ctx) goSites() []goSite {
	prog := c.SSA()
	var out []goSite
	for f := range ssautil.AllFunctions(prog) {
		if !inModule(f) {
			continue
		}
		for _, b := range f.Blocks {
			for _, in := range b.Instrs {
				if g, ok := in.(*ssa.Go); ok {
					gs := goSite{In: f, Instr: g}
					switch v := g.Call.Value.(type) {
					case *ssa.MakeClosure:
						gs.Target, _ = v.Fn.(*ssa.Function)
					case *ssa.Function:
						gs.Target = v
					}
					out = append(out, gs)
				}
			}
		}
	}
	return out
}

// concurrentRegion: module-local functions reachable from any goroutine body.
func (c *Ctx) concurrentRegion() (map[*ssa.Function]bool, []goSite) {
	if v, ok := c.cache["conc"]; ok {
		return v.(map[*ssa.Function]bool), c.cache["gosites"].([]goSite)
	}
	sites := c.goSites()
	var roots []*ssa.Function
	for _, s := range sites {
		if s.Target != nil {
			roots = append(roots, s.Target)
		}
	}
	all := c.reachable(roots...)
	region := map[*ssa.Function]bool{}
	for f := range all {
		if inModule(f) {
			region[f] = true
		}
	}
	c.cache["conc"] = region
	c.cache["gosites"] = sites
	return region, sites
}

// globalRoot follows address/value derivations back to a package-level variable.
func globalRoot(v ssa.Value, depth int) *ssa.Global {
	if depth > 12 || v == nil {
		return nil
	}
	switch x := v.(type) {
	case *ssa.Global:
		return x
	case *ssa.FieldAddr:
		return globalRoot(x.X, depth+1)
	case *ssa.IndexAddr:
		return globalRoot(x.X, depth+1)
	case *ssa.Field:
		return globalRoot(x.X, depth+1)
	case *ssa.Index:
		return globalRoot(x.X, depth+1)
	case *ssa.Lookup:
		return globalRoot(x.X, depth+1)
	case *ssa.UnOp:
		if x.Op == token.MUL || x.Op == token.ARROW {
			return globalRoot(x.X, depth+1)
		}
	case *ssa.Extract:
		return globalRoot(x.Tuple, depth+1)
	case *ssa.ChangeType:
		return globalRoot(x.X, depth+1)
	case *ssa.Convert:
		return globalRoot(x.X, depth+1)
	case *ssa.MakeInterface:
		return globalRoot(x.X, depth+1)
	case *ssa.Phi:
		for _, e := range x.Edges {
			if g := globalRoot(e, depth+1); g != nil {
				return g
			}
		}
	case *ssa.Slice:
		return globalRoot(x.X, depth+1)
	}
	return nil
}

// fnDisplay names an SSA function like funcKey does for source functions.
func ssaName(f *ssa.Function) string {
	if f == nil {
		return "?"
	}
	if o, ok := f.Object().(*types.Func); ok && o != nil {
		return funcKey(o)
	}
	if f.Parent() != nil {
		return ssaName(f.Parent()) + "$lit"
	}
	return f.String()
}

func ssaPos(c *Ctx, f *ssa.Function, in ssa.Instruction) string {
	if in != nil && in.Pos().IsValid() {
		return c.pos(in.Pos())
	}
	if f != nil && f.Pos().IsValid() {
		return c.pos(f.Pos())
	}
	return "-"
}

var _ = ast.Inspect
