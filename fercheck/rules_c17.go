package main

import (
	"fmt"
	"strings"
)

func init() {
	register("C17", &propSpec{
		Explanation: "Structural necessary conditions of the runtime map / dynamic array behaving as abstract map and list, memory-safely (clang AST of runtime/core/map.c, array.c, optional.c): (R1) allocation results are NULL-tested before use and realloc never assigns to the pointer it reallocates; (R2) array bounds guards (= C08.R3); (R3) every subscript of a bucket array uses an index reduced modulo the count of that same array (or a loop variable bounded by it), ferret_map_set computes the bucket after a possible resize, size is incremented only on the insert path, resize replaces buckets and bucket_count together; (R4) iteration only moves forward and ends with entry = NULL; (R5) the lookup loops of get and set are clones; (R6) the optional flag lives at bytes + value_size; (R7) the compiler selects the string map runtime for every key type whose underlying type is str. Does not decide hash quality, use-after-free across API calls, or ADT equivalence over histories.",
		Quick:       []ruleFn{c17R1, c08R3, c17R3, c17R4R5, c17R6, c17R7},
	})
}

func cLoad(c *Ctx, r *Report, rule, rel string) *CFile {
	cf, err := c.CParse(rel)
	if err != nil {
		r.Fail(rule, "clang", "parse "+rel, "-", err.Error())
		return nil
	}
	return cf
}

// c17R1: allocation discipline in map.c and array.c.
func c17R1(c *Ctx, r *Report) {
	const rule = "C17.R1"
	r.Describe(rule, "malloc/calloc/realloc results are NULL-tested before they are dereferenced; realloc never assigns straight to the reallocated pointer")
	n := 0
	for _, rel := range []string{"runtime/core/map.c", "runtime/core/array.c"} {
		cf := cLoad(c, r, rule, rel)
		if cf == nil {
			continue
		}
		for _, name := range cf.Order {
			fn := cf.Funcs[name]
			fn.Walk(func(x *CNode) bool {
				// target = alloc(...)
				var target string
				var call *CNode
				switch {
				case x.Kind == "VarDecl" && len(x.Inner) > 0:
					target, call = x.Name, allocCall(x.Inner[len(x.Inner)-1])
				case x.Kind == "BinaryOperator" && x.Opcode == "=" && len(x.Inner) == 2:
					target, call = x.Inner[0].Src(), allocCall(x.Inner[1])
				}
				if call == nil {
					return true
				}
				n++
				label := fmt.Sprintf("%s:%s %s = %s(...)", shortC(rel), name, target, call.Callee())
				if call.Callee() == "realloc" && len(call.Args()) >= 1 {
					r.Check(call.Args()[0].Src() != target, rule, shortC(rel)+":"+name, "realloc into a temporary ("+target+")", c.cpos(cf, x), "p = realloc(p, n) loses the only pointer to the block when realloc fails")
				}
				// statement containing x and its following siblings
				stmt := x
				for stmt.Parent != nil && stmt.Parent.Kind != "CompoundStmt" {
					stmt = stmt.Parent
				}
				if stmt.Parent == nil {
					return true
				}
				sibs := stmt.Parent.Inner
				idx := -1
				for i, s := range sibs {
					if s == stmt {
						idx = i
					}
				}
				tested := false
				for _, s := range sibs[idx+1:] {
					if s.Kind == "IfStmt" && len(s.Inner) >= 2 {
						for _, d := range cDisjuncts(s.Inner[0]) {
							for _, cj := range cConjuncts(d) {
								if src := cj.Src(); src == "("+target+" == NULL)" || src == "!"+target {
									if cTerminates(s.Inner[1]) {
										tested = true
									}
								}
							}
						}
					}
					if tested {
						break
					}
					// a dereference before the test?
					deref := false
					s.Walk(func(y *CNode) bool {
						if y.Kind == "MemberExpr" && y.IsArrow && len(y.Inner) == 1 && y.Inner[0].Src() == target {
							deref = true
						}
						if y.Kind == "UnaryOperator" && y.Opcode == "*" && len(y.Inner) == 1 && y.Inner[0].Src() == target {
							deref = true
						}
						if y.Kind == "CallExpr" && (y.Callee() == "memcpy" || y.Callee() == "memset") && len(y.Args()) > 0 && strings.Contains(y.Args()[0].Src(), target) {
							deref = true
						}
						return true
					})
					if deref {
						break
					}
				}
				r.Check(tested, rule, shortC(rel)+":"+name, "NULL test after "+target+" = "+call.Callee()+"()", c.cpos(cf, x), label+": the result is used without a NULL test that leaves the function")
				return true
			})
		}
	}
	r.Floor(rule, n, 8, "allocation sites in map.c/array.c")
}

func shortC(rel string) string { return rel[strings.LastIndex(rel, "/")+1:] }

func allocCall(n *CNode) *CNode {
	n = n.strip()
	for n != nil && n.Kind == "CStyleCastExpr" && len(n.Inner) == 1 {
		n = n.Inner[0].strip()
	}
	if n != nil && n.Kind == "CallExpr" {
		switch n.Callee() {
		case "malloc", "calloc", "realloc":
			return n
		}
	}
	return nil
}

// c17R3: bucket index discipline.
func c17R3(c *Ctx, r *Report) {
	const rule = "C17.R3"
	r.Describe(rule, "bucket subscripts use hash % <count of the same array> or a loop variable bounded by it; set computes the bucket after resize; size++ only on insert; resize swaps buckets and bucket_count together")
	cf := cLoad(c, r, rule, "runtime/core/map.c")
	if cf == nil {
		return
	}
	countOf := map[string]string{"map->buckets": "map->bucket_count", "new_buckets": "new_bucket_count"}
	n := 0
	for _, name := range cf.Order {
		fn := cf.Funcs[name]
		// variable definitions: name -> init/assigned expressions
		defs := map[string][]*CNode{}
		fn.Walk(func(x *CNode) bool {
			if x.Kind == "VarDecl" && len(x.Inner) > 0 {
				defs[x.Name] = append(defs[x.Name], x.Inner[len(x.Inner)-1])
			}
			if x.Kind == "BinaryOperator" && x.Opcode == "=" && len(x.Inner) == 2 {
				defs[x.Inner[0].Src()] = append(defs[x.Inner[0].Src()], x.Inner[1])
			}
			return true
		})
		fn.Walk(func(x *CNode) bool {
			if x.Kind != "ArraySubscriptExpr" || len(x.Inner) != 2 {
				return true
			}
			base := x.Inner[0].Src()
			cnt, isBucket := countOf[base]
			if !isBucket {
				return true
			}
			n++
			idx := x.Inner[1].Src()
			ok := false
			why := ""
			// (a) idx defined as (<hash> % cnt)
			for _, d := range defs[idx] {
				s := d.Src()
				if strings.HasSuffix(s, " % "+cnt+")") {
					ok = true
				} else if strings.Contains(s, " % ") {
					why = "index " + idx + " = " + s + " is reduced modulo something other than " + cnt
				}
			}
			// (b) loop variable bounded by cnt: enclosing for/while with condition (idx < cnt)
			for p := x.Parent; p != nil && !ok; p = p.Parent {
				if p.Kind == "ForStmt" || p.Kind == "WhileStmt" {
					p.Walk(func(y *CNode) bool {
						if y.Kind == "BinaryOperator" && y.Opcode == "<" && y.Inner[0].Src() == idx && y.Inner[1].Src() == cnt {
							ok = true
						}
						return !ok
					})
				}
				// if (idx < cnt) guard
				if p.Kind == "IfStmt" && len(p.Inner) > 0 && p.Inner[0].Src() == "("+idx+" < "+cnt+")" {
					ok = true
				}
			}
			if why == "" {
				why = "index " + idx + " is neither `hash % " + cnt + "` nor a loop variable bounded by " + cnt
			}
			r.Check(ok, rule, "map.c:"+name, fmt.Sprintf("%s[%s]", base, idx), c.cpos(cf, x), why+": the subscript can exceed the bucket array (out-of-bounds access) or address the wrong bucket")
			return true
		})
	}
	r.Floor(rule, n, 10, "bucket array subscripts")
	// ferret_map_set: resize before bucket computation; one size++ after the lookup loop
	set := cf.Funcs["ferret_map_set"]
	if r.Anchor(rule, set != nil, "map.c:ferret_map_set") {
		resizeLine, bucketLine, loopLine, incLine, incs := 0, 0, 0, 0, 0
		set.Walk(func(x *CNode) bool {
			if x.Kind == "CallExpr" && x.Callee() == "ferret_map_resize" {
				resizeLine = x.Line
			}
			if x.Kind == "VarDecl" && len(x.Inner) > 0 && strings.Contains(x.Inner[len(x.Inner)-1].Src(), "% map->bucket_count") {
				bucketLine = x.Line
			}
			if x.Kind == "BinaryOperator" && x.Opcode == "=" && len(x.Inner) == 2 && strings.Contains(x.Inner[1].Src(), "% map->bucket_count") {
				bucketLine = x.Line // recomputation
			}
			if x.Kind == "WhileStmt" && loopLine == 0 {
				loopLine = x.Line
			}
			if x.Kind == "UnaryOperator" && x.Opcode == "++" && x.Inner[0].Src() == "map->size" {
				incs++
				incLine = x.Line
			}
			if x.Kind == "CompoundAssignOperator" && x.Inner[0].Src() == "map->size" {
				incs++
				incLine = x.Line
			}
			return true
		})
		r.Check(resizeLine > 0 && bucketLine > resizeLine, rule, "map.c:ferret_map_set", "bucket index computed after the resize", c.cpos(cf, set), "the bucket index is computed with the old bucket count and used after the table was resized: the new entry is linked into the wrong chain and cannot be found")
		r.Check(incs == 1 && incLine > loopLine && loopLine > 0, rule, "map.c:ferret_map_set", "size++ once, after the lookup loop (insert path only)", c.cpos(cf, set), fmt.Sprintf("map->size is incremented %d time(s) / before the existing-key check: updating a key changes the size", incs))
		// the lookup precedes the insertion: a `return true` inside the while loop body after memcpy of the value
		upd := false
		set.Walk(func(x *CNode) bool {
			if x.Kind == "WhileStmt" {
				x.Walk(func(y *CNode) bool {
					if y.Kind == "ReturnStmt" {
						upd = true
					}
					return true
				})
			}
			return true
		})
		r.Check(upd, rule, "map.c:ferret_map_set", "existing key is updated in place and returns", c.cpos(cf, set), "an existing key is not updated in place: a second entry for the same key is inserted")
	}
	rs := cf.Funcs["ferret_map_resize"]
	if r.Anchor(rule, rs != nil, "map.c:ferret_map_resize") {
		var a1, a2 bool
		freeOld := false
		rs.Walk(func(x *CNode) bool {
			if x.Kind == "BinaryOperator" && x.Opcode == "=" && len(x.Inner) == 2 {
				if x.Inner[0].Src() == "map->buckets" && x.Inner[1].Src() == "new_buckets" {
					a1 = true
				}
				if x.Inner[0].Src() == "map->bucket_count" && x.Inner[1].Src() == "new_bucket_count" {
					a2 = true
				}
			}
			if x.Kind == "CallExpr" && x.Callee() == "free" && len(x.Args()) == 1 && x.Args()[0].Src() == "map->buckets" {
				freeOld = true
			}
			return true
		})
		r.Check(a1 && a2, rule, "map.c:ferret_map_resize", "buckets and bucket_count replaced together", c.cpos(cf, rs), "after a resize the bucket array and its count disagree: every later `hash % bucket_count` indexes the wrong array size")
		r.Check(freeOld, rule, "map.c:ferret_map_resize", "old bucket array freed", c.cpos(cf, rs), "the old bucket array is leaked")
		// rehash inserts every entry: new_bucket = hash % new_bucket_count with entry->next relinked
		relink := false
		rs.Walk(func(x *CNode) bool {
			if x.Kind == "BinaryOperator" && x.Opcode == "=" && x.Inner[0].Src() == "entry->next" && strings.HasPrefix(x.Inner[1].Src(), "new_buckets[") {
				relink = true
			}
			return true
		})
		r.Check(relink, rule, "map.c:ferret_map_resize", "entries relinked into the new chains", c.cpos(cf, rs), "rehashing does not link each entry into its new chain")
	}
}

// c17R4R5: iteration shape and lookup clones.
func c17R4R5(c *Ctx, r *Report) {
	const r4, r5 = "C17.R4", "C17.R5"
	r.Describe(r4, "map iteration: bucket index only increases, chain followed before moving on, end state entry = NULL")
	r.Describe(r5, "the lookup loops of ferret_map_get and ferret_map_set use the same match condition (hash equal and equals_fn)")
	cf := cLoad(c, r, r4, "runtime/core/map.c")
	if cf == nil {
		return
	}
	next := cf.Funcs["ferret_map_iter_next"]
	if r.Anchor(r4, next != nil, "map.c:ferret_map_iter_next") {
		incOnly, followsChain, endsNull := true, false, false
		next.Walk(func(x *CNode) bool {
			if (x.Kind == "UnaryOperator" || x.Kind == "CompoundAssignOperator" || (x.Kind == "BinaryOperator" && x.Opcode == "=")) && len(x.Inner) >= 1 && x.Inner[0].Src() == "iter->bucket_index" {
				if !(x.Kind == "UnaryOperator" && x.Opcode == "++") {
					incOnly = false
				}
			}
			if x.Kind == "BinaryOperator" && x.Opcode == "=" && x.Inner[0].Src() == "iter->entry" {
				if x.Inner[1].Src() == "iter->entry->next" {
					followsChain = true
				}
				if x.Inner[1].Src() == "NULL" {
					endsNull = true
				}
			}
			return true
		})
		r.Check(incOnly, r4, "map.c:ferret_map_iter_next", "bucket_index only incremented", c.cpos(cf, next), "the bucket cursor can move backwards or be reset: entries are visited twice or iteration does not end")
		r.Check(followsChain, r4, "map.c:ferret_map_iter_next", "entry = entry->next within a chain", c.cpos(cf, next), "the iterator does not follow the chain of a bucket: colliding entries are skipped")
		r.Check(endsNull, r4, "map.c:ferret_map_iter_next", "end of map sets entry = NULL", c.cpos(cf, next), "after the last entry the iterator keeps a stale entry: the last element is yielded forever")
	}
	get, set := cf.Funcs["ferret_map_get"], cf.Funcs["ferret_map_set"]
	if r.Anchor(r5, get != nil && set != nil, "map.c:ferret_map_get / ferret_map_set") {
		cond := func(fn *CNode) string {
			out := ""
			fn.Walk(func(x *CNode) bool {
				if x.Kind == "WhileStmt" && out == "" {
					x.Walk(func(y *CNode) bool {
						if y.Kind == "IfStmt" && out == "" && len(y.Inner) > 0 {
							out = y.Inner[0].Src()
						}
						return true
					})
				}
				return true
			})
			return out
		}
		g, s := cond(get), cond(set)
		want := "((entry->hash == hash) && map->equals_fn(entry->key, key, map->key_size))"
		r.Check(g == s && g != "", r5, "map.c", "get/set match conditions identical", c.cpos(cf, get), fmt.Sprintf("lookup uses `%s` but insert/update uses `%s`: a key can be stored under a condition under which it is not found", g, s))
		r.Check(g == want, r5, "map.c:ferret_map_get", "match = same hash && equals_fn(entry->key, key, key_size)", c.cpos(cf, get), "the match condition is `"+g+"`")
	}
}

// c17R6: optional out-layout.
func c17R6(c *Ctx, r *Report) {
	const rule = "C17.R6"
	r.Describe(rule, "optional out-parameters: flag byte at bytes + value_size exactly, in map.c and optional.c")
	for _, spec := range []struct{ rel, fn, size string }{
		{"runtime/core/map.c", "ferret_map_get_optional_out", "value_size"},
		{"runtime/core/optional.c", "ferret_optional_unwrap_or", "val_size"},
	} {
		cf := cLoad(c, r, rule, spec.rel)
		if cf == nil {
			continue
		}
		fn := cf.Funcs[spec.fn]
		if !r.Anchor(rule, fn != nil, shortC(spec.rel)+":"+spec.fn) {
			continue
		}
		ok := false
		got := ""
		fn.Walk(func(x *CNode) bool {
			if x.Kind == "VarDecl" && strings.Contains(x.Name, "flag") && len(x.Inner) > 0 {
				got = x.Inner[len(x.Inner)-1].Src()
				if strings.HasSuffix(got, " + "+spec.size+")") && !strings.Contains(strings.TrimSuffix(got, " + "+spec.size+")"), "+") {
					ok = true
				}
			}
			return true
		})
		r.Check(ok, rule, shortC(spec.rel)+":"+spec.fn, "flag at base + "+spec.size, c.cpos(cf, fn), "the is-some flag is addressed at `"+got+"`; the compiler lays the flag out at offset SizeOf(inner) (mir.layout), so any other offset reads padding or payload")
	}
}

// c17R7: key type -> runtime selection.
func c17R7(c *Ctx, r *Report) {
	const rule = "C17.R7"
	r.Describe(rule, "mir/gen mapRuntimeFns: string keys (also through named types) use the string map runtime; fixed-width variants only for keys of that width")
	fn := c.LookupFn(pkgMIRGen, "(*functionBuilder).mapRuntimeFns")
	if !r.Anchor(rule, fn != nil, "mir/gen.(*functionBuilder).mapRuntimeFns") {
		return
	}
	pe := newPEval(c)
	pe.RecvDefaults = map[string]Val{"DataLayout": structVal{"PointerSize": kint(8)}}
	named := func(u *AType) *AType { return &AType{Kind: "named", Under: u} }
	cases := []struct {
		label string
		key   *AType
		want  func(newFn string) bool
		desc  string
	}{
		{"str", prim("str"), func(s string) bool { return strings.HasSuffix(s, "_str") }, "_str"},
		{"named(str)", named(prim("str")), func(s string) bool { return strings.HasSuffix(s, "_str") }, "_str"},
		{"named(named(str))", named(named(prim("str"))), func(s string) bool { return strings.HasSuffix(s, "_str") }, "_str"},
		{"i32", prim("i32"), func(s string) bool { return strings.HasSuffix(s, "_i32") || strings.HasSuffix(s, "_bytes") }, "_i32 or _bytes"},
		{"named(i32)", named(prim("i32")), func(s string) bool { return strings.HasSuffix(s, "_i32") || strings.HasSuffix(s, "_bytes") }, "_i32 or _bytes"},
		{"i64", prim("i64"), func(s string) bool { return strings.HasSuffix(s, "_i64") || strings.HasSuffix(s, "_bytes") }, "_i64 or _bytes"},
		{"u8", prim("u8"), func(s string) bool { return strings.HasSuffix(s, "_bytes") }, "_bytes"},
		{"i16", prim("i16"), func(s string) bool { return strings.HasSuffix(s, "_bytes") }, "_bytes"},
		{"u32", prim("u32"), func(s string) bool { return strings.HasSuffix(s, "_i32") || strings.HasSuffix(s, "_bytes") }, "_i32 or _bytes"},
		{"u64", prim("u64"), func(s string) bool { return strings.HasSuffix(s, "_i64") || strings.HasSuffix(s, "_bytes") }, "_i64 or _bytes"},
		{"bool", prim("bool"), func(s string) bool { return strings.HasSuffix(s, "_bytes") }, "_bytes"},
		{"struct", &AType{Kind: "struct"}, func(s string) bool { return strings.HasSuffix(s, "_bytes") }, "_bytes"},
	}
	for _, cs := range cases {
		res, err := pe.Call(fn, []Val{cs.key})
		if err != nil {
			r.Fail(rule, fn.Name(), "key "+cs.label, c.pos(fn.Decl.Pos()), "undecidable: "+err.Error())
			continue
		}
		sv, _ := res[0].(structVal)
		nf, _ := strOf(sv["newFn"])
		fp, _ := strOf(sv["fromPairsFn"])
		pos := c.pos(fn.Decl.Pos())
		if pe.LastReturn != nil {
			pos = c.pos(pe.LastReturn.Pos())
		}
		r.Check(cs.want(nf) && cs.want(fp) && strings.HasPrefix(nf, "ferret_map_new") && strings.HasPrefix(fp, "ferret_map_from_pairs"), rule, fn.Name(), "key "+cs.label+" -> "+cs.desc, pos,
			fmt.Sprintf("key type %s selects %s / %s: string keys hashed and compared as raw bytes compare pointers (equal strings at different addresses become distinct keys); a fixed-width variant on a key of another width reads the wrong number of bytes", cs.label, nf, fp))
	}
}
