package main

import (
	"fmt"
	"go/ast"
	"go/constant"
	"go/token"
	"go/types"
)

// A4: constant table extraction. A Table is the mapping  case constant -> clause  of a
// `switch tag { case K1, K2: ... }` statement, read off the AST; case constants are resolved
// through go/types (so renaming or re-valuing a constant is seen).

type TableEntry struct {
	Consts  []*types.Const // nil entries for literal cases
	Values  []constant.Value
	Clause  *ast.CaseClause
	Default bool
}

type Table struct {
	Fn      *Fn
	Switch  *ast.SwitchStmt
	Entries []*TableEntry
	byVal   map[string]*TableEntry
	Def     *TableEntry
}

func (t *Table) Lookup(v constant.Value) *TableEntry {
	if e, ok := t.byVal[v.ExactString()]; ok {
		return e
	}
	return t.Def
}

// buildTable turns a switch statement with constant cases into a Table.
func buildTable(fn *Fn, sw *ast.SwitchStmt) (*Table, error) {
	info := fn.Info()
	t := &Table{Fn: fn, Switch: sw, byVal: map[string]*TableEntry{}}
	for _, cc := range caseClauses(sw.Body) {
		e := &TableEntry{Clause: cc}
		if cc.List == nil {
			e.Default = true
			t.Def = e
		}
		for _, x := range cc.List {
			v := constOf(info, x)
			if v == nil {
				return nil, fmt.Errorf("non-constant case %s", exprStr(x))
			}
			e.Values = append(e.Values, v)
			e.Consts = append(e.Consts, constObj(info, x))
			t.byVal[v.ExactString()] = e
		}
		t.Entries = append(t.Entries, e)
	}
	return t, nil
}

// findSwitch returns the first switch statement in fn (outside function literals) whose tag
// satisfies pred (tag == nil for tagless switches is passed through as nil).
func findSwitch(fn *Fn, pred func(tag ast.Expr) bool) *ast.SwitchStmt {
	var out *ast.SwitchStmt
	ast.Inspect(fn.Decl.Body, func(n ast.Node) bool {
		if out != nil {
			return false
		}
		if _, ok := n.(*ast.FuncLit); ok {
			return false
		}
		if sw, ok := n.(*ast.SwitchStmt); ok && sw.Tag != nil && pred(sw.Tag) {
			out = sw
			return false
		}
		return true
	})
	return out
}

// switchOnParam finds the switch whose tag is exactly parameter i of fn.
func switchOnParam(fn *Fn, i int) *ast.SwitchStmt {
	p := fn.Param(i)
	return findSwitch(fn, func(tag ast.Expr) bool { return usesVar(fn.Info(), tag, p) })
}

// singleReturn: if the clause body is (possibly after non-returning statements) a single
// `return e1, ...` at top level, return its results; otherwise nil.
func clauseReturn(cc *ast.CaseClause) []ast.Expr {
	if len(cc.Body) == 0 {
		return nil
	}
	if r, ok := cc.Body[len(cc.Body)-1].(*ast.ReturnStmt); ok && len(cc.Body) == 1 {
		return r.Results
	}
	return nil
}

// trailingReturn returns the results of the last top-level statement of fn's body if it is a return.
func trailingReturn(fn *Fn) []ast.Expr {
	l := fn.Decl.Body.List
	if len(l) == 0 {
		return nil
	}
	if r, ok := l[len(l)-1].(*ast.ReturnStmt); ok {
		return r.Results
	}
	return nil
}

// constFuncTable reads a function of the form
//
//	func f(k K) R { switch k { case A, B: return c1 ... default: return cD } [return cD] }
//
// into map constValue(ExactString) -> returned constant; def is the value for everything else.
type ConstMap struct {
	Fn      *Fn
	M       map[string]constant.Value
	Def     constant.Value
	CaseObj map[string]*types.Const
}

func constFuncTable(fn *Fn, param int) (*ConstMap, error) {
	sw := switchOnParam(fn, param)
	if sw == nil {
		return nil, fmt.Errorf("%s: no switch on parameter %d", fn.Name(), param)
	}
	t, err := buildTable(fn, sw)
	if err != nil {
		return nil, fmt.Errorf("%s: %v", fn.Name(), err)
	}
	info := fn.Info()
	cm := &ConstMap{Fn: fn, M: map[string]constant.Value{}, CaseObj: map[string]*types.Const{}}
	for _, e := range t.Entries {
		res := clauseReturn(e.Clause)
		if len(res) < 1 {
			return nil, fmt.Errorf("%s: case at %v is not a single return", fn.Name(), e.Clause.Pos())
		}
		v := constOf(info, res[0])
		if v == nil {
			return nil, fmt.Errorf("%s: non-constant return %s", fn.Name(), exprStr(res[0]))
		}
		if e.Default {
			cm.Def = v
			continue
		}
		for i, k := range e.Values {
			cm.M[k.ExactString()] = v
			cm.CaseObj[k.ExactString()] = e.Consts[i]
		}
	}
	if cm.Def == nil {
		if tr := trailingReturn(fn); len(tr) >= 1 {
			cm.Def = constOf(info, tr[0])
		}
	}
	if cm.Def == nil {
		return nil, fmt.Errorf("%s: no constant default", fn.Name())
	}
	return cm, nil
}

func (cm *ConstMap) Get(k constant.Value) constant.Value {
	if v, ok := cm.M[k.ExactString()]; ok {
		return v
	}
	return cm.Def
}

func (cm *ConstMap) GetS(s string) constant.Value { return cm.Get(constant.MakeString(s)) }

func boolVal(v constant.Value) bool {
	return v != nil && v.Kind() == constant.Bool && constant.BoolVal(v)
}
func intVal(v constant.Value) int64 {
	if v == nil {
		return -1
	}
	i, _ := constant.Int64Val(constant.ToInt(v))
	return i
}

// isTokenOp reports e is the comparison operator op (or one of ops).
func isBinOp(e ast.Expr, ops ...token.Token) (*ast.BinaryExpr, bool) {
	b, ok := ast.Unparen(e).(*ast.BinaryExpr)
	if !ok {
		return nil, false
	}
	for _, o := range ops {
		if b.Op == o {
			return b, true
		}
	}
	return b, false
}
