package main

import (
	"go/ast"
	"go/token"
	"go/types"
	"sort"
	"strings"

	"golang.org/x/tools/go/cfg"
)

func init() { props["C03"].Quick = append(props["C03"].Quick, c03R5) }

// c03R5Reviewed: operators that build a BinaryExpr but have no operand rule in checkBinaryExpr.
var c03R5Reviewed = map[string]string{
	"IS_TOKEN": "right operand is a type, checked by the `is` path of checkExpr",
}

// C03.R5: arithmetic between two typed operands is accepted only when the types are identical.
func c03R5(c *Ctx, r *Report) {
	const rule = "C03.R5"
	r.Describe(rule, "checkBinaryExpr: every operator the parser or a compound assignment can hand over has a case; in each arithmetic/bitwise case every accepting exit is behind `lhsType.Equals(rhsType)`, an untyped-literal test or the string-concatenation test, every other exit reports an error")
	fn := c.LookupFn(pkgTC, "checkBinaryExpr")
	bagAdd := c.LookupFn("internal/diagnostics", "(*DiagnosticBag).Add")
	asg := c.LookupFn(pkgTC, "checkAssignStmt")
	if !r.Anchor(rule, fn != nil && bagAdd != nil && asg != nil, "typechecker.checkBinaryExpr / checkAssignStmt / DiagnosticBag.Add") {
		return
	}
	info := fn.Info()
	sig := fn.Obj.Type().(*types.Signature)
	if !r.Anchor(rule, sig.Params().Len() == 5, "checkBinaryExpr(ctx, mod, expr, lhsType, rhsType)") {
		return
	}
	lhsP, rhsP := sig.Params().At(3), sig.Params().At(4)
	// the switch on expr.Op.Kind
	var sw *ast.SwitchStmt
	ast.Inspect(fn.Decl.Body, func(n ast.Node) bool {
		if s, ok := n.(*ast.SwitchStmt); ok && sw == nil && s.Tag != nil && strings.HasSuffix(exprStr(s.Tag), ".Op.Kind") {
			sw = s
		}
		return true
	})
	if !r.Anchor(rule, sw != nil, "checkBinaryExpr: switch expr.Op.Kind") {
		return
	}
	cased := map[string]*ast.CaseClause{}
	for _, st := range sw.Body.List {
		cc := st.(*ast.CaseClause)
		for _, e := range cc.List {
			if o := constObj(info, e); o != nil {
				cased[o.Name()] = cc
			}
		}
	}
	// (a) operator coverage: tokens matched by parser functions that build BinaryExpr + requiredOp of compound assignments
	handed := map[string]string{}
	for _, pf := range c.AllFns("internal/frontend/parser") {
		if pf.Decl.Body == nil {
			continue
		}
		builds := false
		ast.Inspect(pf.Decl.Body, func(n ast.Node) bool {
			if cl, ok := n.(*ast.CompositeLit); ok {
				if nt := namedOf(pf.Info().TypeOf(cl)); nt != nil && nt.Obj().Name() == "BinaryExpr" {
					builds = true
				}
			}
			return true
		})
		if !builds {
			continue
		}
		for _, call := range callsIn(pf.Decl.Body, false) {
			if f := callee(pf.Info(), call); f != nil && f.Name() == "match" {
				for _, a := range call.Args {
					if o := constObj(pf.Info(), a); o != nil && strings.HasSuffix(o.Name(), "_TOKEN") {
						handed[o.Name()] = pf.Name()
					}
				}
			}
		}
	}
	ast.Inspect(asg.Decl.Body, func(n ast.Node) bool {
		if as, ok := n.(*ast.AssignStmt); ok && len(as.Lhs) == 1 && exprStr(as.Lhs[0]) == "requiredOp" && len(as.Rhs) == 1 {
			if o := constObj(asg.Info(), as.Rhs[0]); o != nil {
				handed[o.Name()] = asg.Name() + " (compound assignment)"
			}
		}
		return true
	})
	r.Floor(rule, len(handed), 14, "operators handed to checkBinaryExpr")
	for _, tok := range sortedKeys(handed) {
		if reason, ok := c03R5Reviewed[tok]; ok {
			r.OK(rule, fn.Name(), "operator "+tok+" (reviewed: "+reason+")", c.pos(sw.Pos()), "reviewed exception")
			continue
		}
		r.Check(cased[tok] != nil, rule, fn.Name(), "operator "+tok+" has a case", c.pos(sw.Pos()),
			"operator "+tok+" (from "+handed[tok]+") has no case in checkBinaryExpr: any operand pair is accepted for it, including operands of different numeric types")
	}
	// (b) strictness of the arithmetic/bitwise cases
	arith := map[string]bool{"PLUS_TOKEN": true, "MINUS_TOKEN": true, "MUL_TOKEN": true, "DIV_TOKEN": true, "MOD_TOKEN": true, "BIT_AND_TOKEN": true, "BIT_OR_TOKEN": true, "BIT_XOR_TOKEN": true}
	done := map[*ast.CaseClause]bool{}
	n := 0
	var names []string
	for tok := range arith {
		names = append(names, tok)
	}
	sort.Strings(names)
	for _, tok := range names {
		cc := cased[tok]
		if cc == nil || done[cc] {
			continue
		}
		done[cc] = true
		n++
		var toks []string
		for _, e := range cc.List {
			toks = append(toks, strings.TrimSuffix(exprStr(e), "_TOKEN"))
		}
		isTypeParam := func(e ast.Expr) types.Object {
			o := objOf(info, e)
			if o == lhsP || o == rhsP {
				return o
			}
			return nil
		}
		// string-concatenation flag: bool variable defined as X.Equals(types.TypeString)
		strFlag := map[types.Object]bool{}
		ast.Inspect(fn.Decl.Body, func(x ast.Node) bool {
			if as, ok := x.(*ast.AssignStmt); ok && as.Tok == token.DEFINE && len(as.Lhs) == 1 && len(as.Rhs) == 1 {
				if cl, ok := as.Rhs[0].(*ast.CallExpr); ok && len(cl.Args) == 1 && strings.HasSuffix(exprStr(cl.Fun), ".Equals") && strings.HasSuffix(exprStr(cl.Args[0]), "TypeString") {
					strFlag[info.Defs[as.Lhs[0].(*ast.Ident)]] = true
				}
			}
			return true
		})
		g := c.CFGOfBody(&ast.BlockStmt{List: cc.Body, Lbrace: cc.Colon, Rbrace: cc.End()})
		hits := mustFlow(g, FlowSpec{
			Gate: func(nd ast.Node) bool { return nodeCalls(info, nd, bagAdd.Obj) != nil },
			EdgeGate: func(b *cfg.Block, succ int) bool {
				cond := condOf(b)
				if cond == nil {
					return false
				}
				cond = ast.Unparen(cond)
				// !lhsType.Equals(rhsType): false edge = identical types
				if u, ok := cond.(*ast.UnaryExpr); ok && u.Op == token.NOT && succ == 1 {
					if cl, ok := ast.Unparen(u.X).(*ast.CallExpr); ok && len(cl.Args) == 1 {
						if sel, ok := cl.Fun.(*ast.SelectorExpr); ok && sel.Sel.Name == "Equals" {
							a, bb := isTypeParam(sel.X), isTypeParam(cl.Args[0])
							if a != nil && bb != nil && a != bb {
								return true
							}
						}
					}
				}
				// IsUntyped(x) || IsUntyped(y): true edge = a literal operand, bound and range-checked by the caller (C10.R1b)
				if succ == 0 {
					all := true
					for _, d := range disjuncts(cond) {
						cl, ok := ast.Unparen(d).(*ast.CallExpr)
						if !ok {
							all = false
							break
						}
						f := callee(info, cl)
						if f == nil || f.Name() != "IsUntyped" {
							all = false
						}
					}
					if all {
						return true
					}
					// a helper that holds only if one operand is an untyped literal
					if cl, ok := cond.(*ast.CallExpr); ok {
						if f := callee(info, cl); f != nil && impliesUntyped(c, f) {
							return true
						}
					}
					// string concatenation: left operand is a string
					if o := objOf(info, cond); o != nil && strFlag[o] {
						return true
					}
				}
				return false
			},
			AtReturn: true,
		})
		where := c.pos(cc.Pos())
		if len(hits) > 0 && hits[0].Pos.IsValid() {
			where = c.pos(hits[0].Pos)
		}
		r.Check(len(hits) == 0, rule, fn.Name(), "case "+strings.Join(toks, ",")+": typed operands accepted only when identical", where,
			"an exit of this case is reachable for two typed operands without the `lhsType.Equals(rhsType)` test having succeeded and without an error report: arithmetic between different numeric types is accepted without a cast (and `x op= y` then narrows y to x's type)")
	}
	r.Floor(rule, n, 2, "arithmetic/bitwise case clauses")
}

func init() { props["C03"].Quick = append(props["C03"].Quick, c03R6) }

// C03.R6: flow typing of `||` / `&&`. In the then-branch of `l || r` and in the else-branch of `l && r` only one
// operand is known to hold / fail, so the context used there may keep a variable narrowed only if both sides narrow it.
func c03R6(c *Ctx, r *Report) {
	const rule = "C03.R6"
	r.Describe(rule, "narrowing: the then-context of `||` and the else-context of `&&` are built by a combinator whose every Narrow(...) is behind two successful lookups (one per side)")
	const pkgNarrow = "internal/semantics/narrowing"
	an := c.LookupFn(pkgNarrow, "analyzeConditionRecursive")
	narrow := c.LookupFn(pkgNarrow, "(*NarrowingContext).Narrow")
	get := c.LookupFn(pkgNarrow, "(*NarrowingContext).GetNarrowedType")
	if !r.Anchor(rule, an != nil && narrow != nil && get != nil, "narrowing.analyzeConditionRecursive / Narrow / GetNarrowedType") {
		return
	}
	info := an.Info()
	// bothSided(F): every Narrow call in F is dominated by >= 2 successful GetNarrowedType lookups on different receivers
	bothSided := func(f *Fn) (bool, string) {
		finfo := f.Info()
		okVars := map[types.Object]string{} // ok variable -> receiver expression of the lookup
		ast.Inspect(f.Decl.Body, func(x ast.Node) bool {
			as, isAs := x.(*ast.AssignStmt)
			if !isAs || len(as.Lhs) != 2 || len(as.Rhs) != 1 {
				return true
			}
			cl, isCall := as.Rhs[0].(*ast.CallExpr)
			if !isCall || !isCallTo(finfo, cl, get.Obj) {
				return true
			}
			if id, isID := as.Lhs[1].(*ast.Ident); isID {
				o := finfo.Defs[id]
				if o == nil {
					o = finfo.Uses[id]
				}
				if sel, isSel := cl.Fun.(*ast.SelectorExpr); isSel && o != nil {
					okVars[o] = exprStr(sel.X)
				}
			}
			return true
		})
		bad := ""
		walkWithStack(f.Decl.Body, func(n ast.Node, stack []ast.Node) bool {
			cl, isCall := n.(*ast.CallExpr)
			if !isCall || !isCallTo(finfo, cl, narrow.Obj) {
				return true
			}
			recvs := map[string]bool{}
			for i := len(stack) - 1; i >= 0; i-- {
				ifs, isIf := stack[i].(*ast.IfStmt)
				if !isIf {
					continue
				}
				// only when we are in the then-branch
				inThen := false
				ast.Inspect(ifs.Body, func(y ast.Node) bool {
					if y == ast.Node(cl) {
						inThen = true
					}
					return true
				})
				if !inThen {
					continue
				}
				for _, cj := range conjuncts(ifs.Cond) {
					if o := objOf(finfo, cj); o != nil {
						if rcv, ok := okVars[o]; ok {
							recvs[rcv] = true
						}
					}
				}
			}
			if len(recvs) < 2 {
				bad = exprStr(cl)
			}
			return true
		})
		return bad == "", bad
	}
	check := func(tok string, which int, label string) {
		cc := clauseOf(an, tok, nil)
		if !r.Anchor(rule, cc != nil, "analyzeConditionRecursive: case "+tok) {
			return
		}
		var ret *ast.ReturnStmt
		for _, st := range cc.Body {
			if rs, ok := st.(*ast.ReturnStmt); ok && len(rs.Results) == 2 {
				ret = rs
			}
		}
		if !r.Anchor(rule, ret != nil, "case "+tok+": return then, else") {
			return
		}
		// definition of the returned variable inside the clause
		v := objOf(info, ret.Results[which])
		var def *ast.CallExpr
		for _, st := range cc.Body {
			if as, ok := st.(*ast.AssignStmt); ok && len(as.Lhs) == 1 && len(as.Rhs) == 1 {
				if o := objOf(info, as.Lhs[0]); o != nil && o == v {
					def, _ = as.Rhs[0].(*ast.CallExpr)
				} else if id, isID := as.Lhs[0].(*ast.Ident); isID && info.Defs[id] == v && v != nil {
					def, _ = as.Rhs[0].(*ast.CallExpr)
				}
			}
		}
		if def == nil {
			r.Fail(rule, an.Name(), label, c.pos(ret.Pos()), "undecidable: the context returned for this branch is not the result of a combinator call")
			return
		}
		f := callee(info, def)
		fn := c.FnOf(f)
		if fn == nil {
			r.Fail(rule, an.Name(), label, c.pos(def.Pos()), "undecidable: combinator "+exprStr(def.Fun)+" not found in the module")
			return
		}
		ok, bad := bothSided(fn)
		r.Check(ok, rule, an.Name(), label+" built by a both-sided combinator ("+f.Name()+")", c.pos(def.Pos()),
			"the combinator "+f.Name()+" keeps a narrowing that only one operand establishes ("+bad+"): in `if a != none || b != none { let c: i32 = a; }` the variable a is treated as i32 although it may be none")
	}
	check("OR_TOKEN", 0, "then-context of ||")
	check("AND_TOKEN", 1, "else-context of &&")
}

// impliesUntyped: f is a boolean helper that returns false first thing unless one of its parameters is an
// untyped literal type — `if !types.IsUntyped(a) && !types.IsUntyped(b) { return false }` as its first statement.
func impliesUntyped(c *Ctx, f *types.Func) bool {
	hf := c.FnOf(f)
	if hf == nil || hf.Decl == nil || hf.Decl.Body == nil || len(hf.Decl.Body.List) == 0 {
		return false
	}
	ifs, ok := hf.Decl.Body.List[0].(*ast.IfStmt)
	if !ok || ifs.Init != nil || len(ifs.Body.List) != 1 {
		return false
	}
	ret, ok := ifs.Body.List[0].(*ast.ReturnStmt)
	if !ok || len(ret.Results) != 1 || exprStr(ret.Results[0]) != "false" {
		return false
	}
	n := 0
	for _, cj := range conjuncts(ifs.Cond) {
		u, ok := ast.Unparen(cj).(*ast.UnaryExpr)
		if !ok || u.Op != token.NOT {
			return false
		}
		cl, ok := ast.Unparen(u.X).(*ast.CallExpr)
		if !ok || len(cl.Args) != 1 {
			return false
		}
		g := callee(hf.Info(), cl)
		if g == nil || g.Name() != "IsUntyped" {
			return false
		}
		if o := objOf(hf.Info(), cl.Args[0]); o == nil || !isParamOf(hf, o) {
			return false
		}
		n++
	}
	return n > 0
}
