#!/bin/bash
# usage: selftest/mut.sh <patch.diff | -e 'sed expr' file | -f replacement.go dest/rel/path.go> <prop>...
# Applies one change to a scratch copy of /repo (under $TMPDIR, removed afterwards), checks it still
# builds, and runs ./check <prop> against it. Prints the check's VIOLATION lines. Development aid only.
set -u
HERE="$(cd "$(dirname "$0")/.." && pwd)"
export GOFLAGS=-mod=mod GOPROXY=off GOSUMDB=off GOTOOLCHAIN=local PATH=/opt/veriftools/go1.26.8/bin:$PATH; unset GOWORK
S=$(mktemp -d ${TMPDIR:-/tmp}/fermut.XXXXXX); trap 'rm -rf "$S"' EXIT
mkdir -p "$S/repo" "$S/verif/evidence"
rsync -a --exclude .git --exclude '/ferret' --exclude '/compiler' --exclude '/app*' --exclude '/Ferret' /repo/ "$S/repo/"
cp "$HERE/known_findings.json" "$S/verif/"; [ -d "$HERE/fixtures" ] && cp -r "$HERE/fixtures" "$S/verif/"
if [ "$1" = "-f" ]; then cp "$2" "$S/repo/$3" || exit 3; shift 3; elif [ "$1" = "-e" ]; then sed -i -E "$2" "$S/repo/$3" || exit 3; shift 3; else (cd "$S/repo" && patch -p1 -s < "$1") || { echo "patch failed"; exit 3; }; shift; fi
(cd "$S/repo" && go build ./... ) || { echo "MUTANT DOES NOT BUILD"; exit 4; }
if [ "${MUT_TEST:-0}" = 1 ]; then (cd "$S/repo" && go test -vet=off -count=1 ./... 2>&1 | grep -v "^ok\|no test files" | head -20); fi
for P in "$@"; do
FERCHECK_REPO="$S/repo" FERCHECK_VERIF="$S/verif" "$HERE/check" $P quick 2>&1 | grep -A2 "^VIOLATION\|^property" | sed "s#$S/##g" | head -${MUT_LINES:-12}
done
